#!/bin/bash
# usage: tools_runseeds.sh <PROP-of-seed-prefix> [check ids...]  -- runs checks against each archived seeded change
PRE=$1; shift
CHECKS=${@:-$PRE}
for d in /verif/seeded/${PRE}_*; do
  echo "=== $(basename $d): $(python3 -c "import json;print(json.load(open('$d/meta.json'))['summary'][:110])")"
  git -C /repo apply $d/patch.diff || { echo "   patch does not apply"; continue; }
  for c in $CHECKS; do (cd /verif && ./check $c 2>&1 | grep -v "^WARNING" | grep -E "^\[|VIOLATION" | cut -c1-230 | head -3); done
  git -C /repo checkout -- .
done
git -C /repo status --short | head -3
