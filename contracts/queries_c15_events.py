"""C15 - predicate- and event-level reference queries."""
from hpl.ast.predicates import HplPredicateExpression
from hpl.ast.events import HplSimpleEvent, HplEventDisjunction
from pyvc.contracts import contract, invariant, lemma, spec, aux, tag, unfold
import contracts.queries_c15  # expression-level contracts are used at the call sites below  # noqa: F401
from specs.events import (pred_refs, pred_mentions, pred_mentions_this, ev_refs, ev_aliases, alts, ev_mentions,
                          ev_mentions_this, wf_pred, wf_event)


@contract('hpl.ast.predicates.HplPredicate.external_references', virtual=True, props=['C15'])
class Pred_external_references:
    result = 'Set[Str]'

    @aux
    def requires(self):
        return wf_pred(self)

    def returns(self):
        return pred_refs(self)


@contract('hpl.ast.predicates.HplPredicate.contains_reference', virtual=True, props=['C15'])
class Pred_contains_reference:
    def returns(self, alias):
        return pred_mentions(self, alias)


@contract('hpl.ast.predicates.HplPredicate.contains_self_reference', virtual=True, props=['C15'])
class Pred_contains_self_reference:
    def returns(self):
        return pred_mentions_this(self)


@contract('hpl.ast.events.HplEvent.aliases', virtual=True, props=['C15'])
class Event_aliases:
    result = 'Seq[Str]'

    def returns(self):
        # "aliases() lists the aliases of an event's alternatives in source order"
        return ev_aliases(self)


@contract('hpl.ast.events.HplEvent.external_references', virtual=True, props=['C15'])
class Event_external_references:
    result = 'Set[Str]'

    @aux
    def requires(self):
        return wf_event(self)

    def returns(self):
        # "... and, for events, not the event's own alias"
        return ev_refs(self)


@contract('hpl.ast.events.HplEvent.contains_reference', virtual=True, props=['C15'])
class Event_contains_reference:
    def returns(self, alias):
        return ev_mentions(self, alias)


@contract('hpl.ast.events.HplEvent.contains_self_reference', virtual=True, props=['C15'])
class Event_contains_self_reference:
    @aux
    def requires(self):
        return wf_event(self)

    def ensures(self, result):
        # the code returns `alias and ...` (not always a bool): its truth value is what callers use
        return bool(result) == ev_mentions_this(self)


@contract('hpl.ast.events.HplEvent.simple_events', virtual=True, props=['C15'])
class Event_simple_events:
    result = 'Seq[Event]'
    inline_when_known = True

    def returns(self):
        return alts(self)


@invariant('hpl.ast.events.HplEventDisjunction.simple_events', loop=0, types={'$yielded': 'Seq[Event]'})
def _se_inv0(self, yielded, rest):
    return yielded + rest == alts(self.event1)


@invariant('hpl.ast.events.HplEventDisjunction.simple_events', loop=1, types={'$yielded': 'Seq[Event]'})
def _se_inv1(self, yielded, rest):
    return yielded + rest == alts(self.event1) + alts(self.event2)
