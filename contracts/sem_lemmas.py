"""Axioms (A-SEM, assumed - checked natively against the reference evaluator on the corpus, never proved) and
lemmas (proved, by induction where needed) about the truth-value semantics of specs/sem.py."""
from hpl.ast.expressions import (HplExpression, HplUnaryOperator, HplBinaryOperator, HplQuantifier, HplLiteral,
                                 HplFunctionCall, QuantifierType)
from pyvc.contracts import lemma, spec, unfold, raw_field
from specs.sem import ev, equiv, conj, dom, bind, atom, forall_env
from specs.tree import mentions
from specs.typing import with_dt
from hpl.types import DataType

ANY = DataType.ANY

# ------------------------------------------------------------------------------------------------ axioms


@lemma(axiom=True, auto=('ev',))
def atom_ignores_types(e: 'Expr', t: 'DT', rho: 'Env') -> 'Bool':
    """A-SEM-1: the value of an expression does not depend on the type set stored at its root"""
    return atom(with_dt(e, t), rho) == atom(e, rho)


@lemma(axiom=True, auto=('ev',))
def dom_ignores_types(d: 'Expr', t: 'DT', rho: 'Env') -> 'Bool':
    """A-SEM-1 (domains): the members of a domain do not depend on the type set stored at its root"""
    return dom(with_dt(d, t), rho) == dom(d, rho)


@lemma(axiom=True)
def ev_frame(e: 'Expr', v: 'Str', x: 'Val', rho: 'Env') -> 'Bool':
    """A-SEM-2: the truth value of an expression does not depend on a variable it does not mention"""
    return mentions(e, v) or ev(e, bind(rho, v, x)) == ev(e, rho)


@lemma(axiom=True)
def dom_frame(d: 'Expr', v: 'Str', x: 'Val', rho: 'Env') -> 'Bool':
    """A-SEM-2 (domains): the members of a domain do not depend on a variable it does not mention"""
    return mentions(d, v) or dom(d, bind(rho, v, x)) == dom(d, rho)


@spec(inline=True)
def is_empty_test(e: 'Expr', d: 'Expr') -> 'Bool':
    """e is the expression `len(d) = 0` (whatever type sets are stored in it)"""
    return isinstance(e, HplBinaryOperator) and e.operator.token == '=' \
        and isinstance(e.operand1, HplFunctionCall) and e.operand1.function.name == 'len' \
        and len(e.operand1.arguments) == 1 and with_dt(e.operand1.arguments[0], ANY) == with_dt(d, ANY) \
        and isinstance(e.operand2, HplLiteral) and e.operand2.value == 0


@lemma(axiom=True)
def empty_test_sem(e: 'Expr', d: 'Expr') -> 'Bool':
    """A-SEM-3: `len(d) = 0` is true exactly when the domain d has no members"""
    return (not is_empty_test(e, d)) or forall_env(lambda rho: atom(e, rho) == (len(dom(d, rho)) == 0))


# ------------------------------------------------------------------------------------------------ lemmas

@lemma(auto=('ev',))
def ev_ignores_types(e: 'Expr', t: 'DT', rho: 'Env') -> 'Bool':
    """stored type sets at the root of an expression do not change its truth value"""
    return ev(with_dt(e, t), rho) == ev(e, rho)


@spec(inline=True)
def is_neg(e: 'Expr') -> 'Bool':
    return isinstance(e, HplUnaryOperator) and e.operator.token == 'not'


@spec(inline=True)
def is_conj(e: 'Expr') -> 'Bool':
    return isinstance(e, HplBinaryOperator) and e.operator.token == 'and'


def _pat0(e, t):
    return with_dt(e, t)


@lemma(auto=('ev',), patterns=_pat0)
def equiv_types(e: 'Expr', t: 'DT') -> 'Bool':
    return equiv(with_dt(e, t), e)


def _pat1(a, b):
    return equiv(a, b)

@lemma(auto=('ev',), patterns=_pat1)
def equiv_sym(a: 'Expr', b: 'Expr') -> 'Bool':
    return (not equiv(a, b)) or equiv(b, a)


def _pat2(a, b, c):
    return (equiv(a, b), equiv(b, c))

@lemma(auto=('ev',), patterns=_pat2)
def equiv_trans(a: 'Expr', b: 'Expr', c: 'Expr') -> 'Bool':
    return (not (equiv(a, b) and equiv(b, c))) or equiv(a, c)


# ---- quantifier bodies: folds over the members of a domain

def _pat3(s, p, q, v, rho):
    return (equiv(p, q), all(ev(p, bind(rho, v, x)) for x in s))

@lemma(induction_on='s', auto=('ev',),
       patterns=_pat3)
def all_cong(s: 'Seq[Val]', p: 'Expr', q: 'Expr', v: 'Str', rho: 'Env') -> 'Bool':
    """equivalent bodies: same universal fold"""
    return (not equiv(p, q)) \
        or (all(ev(p, bind(rho, v, x)) for x in s) == all(ev(q, bind(rho, v, x)) for x in s))


def _pat4(s, p, q, v, rho):
    return (equiv(p, q), any(ev(p, bind(rho, v, x)) for x in s))

@lemma(induction_on='s', auto=('ev',),
       patterns=_pat4)
def any_cong(s: 'Seq[Val]', p: 'Expr', q: 'Expr', v: 'Str', rho: 'Env') -> 'Bool':
    """equivalent bodies: same existential fold"""
    return (not equiv(p, q)) \
        or (any(ev(p, bind(rho, v, x)) for x in s) == any(ev(q, bind(rho, v, x)) for x in s))


def _pat5(s, c, v, rho):
    # only for a body whose first operand is already spoken of (no chain of instances down the operands)
    return (all(ev(c, bind(rho, v, x)) for x in s), raw_field(c, 'HplBinaryOperator', 'operand1'))

@lemma(induction_on='s', auto=('ev',), patterns=_pat5)
def all_and(s: 'Seq[Val]', c: 'Expr', v: 'Str', rho: 'Env') -> 'Bool':
    """(A x: p & q)  ==  (A x: p) & (A x: q)"""
    return (not is_conj(c)) \
        or (all(ev(c, bind(rho, v, x)) for x in s)
            == (all(ev(c.operand1, bind(rho, v, x)) for x in s) and all(ev(c.operand2, bind(rho, v, x)) for x in s)))


def _all_const_hint(s, p, v, rho):
    if len(s) > 0:
        ev_frame(p, v, s[0], rho)


def _pat6(s, p, v, rho):
    return all(ev(p, bind(rho, v, x)) for x in s)

@lemma(induction_on='s', auto=('ev',), hint=_all_const_hint,
       patterns=_pat6)
def all_const(s: 'Seq[Val]', p: 'Expr', v: 'Str', rho: 'Env') -> 'Bool':
    """(A x: p) with x not in p  ==  (the domain is empty) | p"""
    return mentions(p, v) or (all(ev(p, bind(rho, v, x)) for x in s) == (len(s) == 0 or ev(p, rho)))


def _pat7(s, p, v, rho):
    return (all(ev(p, bind(rho, v, x)) for x in s), raw_field(p, 'HplUnaryOperator', 'operand'))

@lemma(induction_on='s', auto=('ev',), patterns=_pat7)
def all_neg(s: 'Seq[Val]', p: 'Expr', v: 'Str', rho: 'Env') -> 'Bool':
    """(A x: ~c)  ==  ~(E x: c)"""
    return (not is_neg(p)) \
        or (all(ev(p, bind(rho, v, x)) for x in s) == (not any(ev(p.operand, bind(rho, v, x)) for x in s)))


# ---- conjunction of a list (work lists of split_and)

def _pat8(s, c, rho):
    return conj(s + (c,), rho)


@lemma(induction_on='s', auto=('conj',), patterns=_pat8)
def conj_snoc(s: 'Seq[Expr]', c: 'Expr', rho: 'Env') -> 'Bool':
    return conj(s + (c,), rho) == (conj(s, rho) and ev(c, rho))


def _pat9(s, t, rho):
    return conj(s + t, rho)


@lemma(induction_on='s', auto=('conj',), patterns=_pat9)
def conj_append(s: 'Seq[Expr]', t: 'Seq[Expr]', rho: 'Env') -> 'Bool':
    return conj(s + t, rho) == (conj(s, rho) and conj(t, rho))


def _pat10(u, rho):
    return conj(u, rho)


@lemma(auto=('conj',), patterns=_pat10)
def conj_unit(u: 'Seq[Expr]', rho: 'Env') -> 'Bool':
    return len(u) != 1 or conj(u, rho) == ev(u[0], rho)


def _conj_last_hint(s, rho):
    if len(s) > 0:
        conj_snoc(s[:-1], s[-1], rho)


@lemma(hint=_conj_last_hint)
def conj_last(s: 'Seq[Expr]', rho: 'Env') -> 'Bool':
    return len(s) == 0 or (s[:-1] + (s[-1],) == s and conj(s, rho) == (conj(s[:-1], rho) and ev(s[-1], rho)))


# ---- stored type sets do not matter to the reference queries either (proved: one unfolding)

def _patm(e, t, a):
    return mentions(with_dt(e, t), a)


@lemma(auto=('mentions',), patterns=_patm)
def mentions_ignores_types(e: 'Expr', t: 'DT', a: 'Str') -> 'Bool':
    return mentions(with_dt(e, t), a) == mentions(e, a)
