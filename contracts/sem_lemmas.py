"""Axioms (A-SEM, assumed - checked natively against the reference evaluator on the corpus, never proved) and
lemmas (proved, by induction where needed) about the truth-value semantics of specs/sem.py."""
from hpl.ast.expressions import (HplExpression, HplUnaryOperator, HplBinaryOperator, HplQuantifier, HplLiteral,
                                 HplFunctionCall, QuantifierType)
from pyvc.contracts import lemma, spec, unfold, raw_field
from specs.sem import ev, equiv, conj, dom, bind, atom, forall_env
from specs.tree import mentions, wf_q
from specs.typing import with_dt, wt, BOOL
from hpl.types import DataType

ANY = DataType.ANY

# ------------------------------------------------------------------------------------------------ axioms


@lemma(axiom=True, auto=('ev',))
def atom_ignores_types(e: 'Expr', t: 'DT', rho: 'Env') -> 'Bool':
    """A-SEM-1: the value of an expression does not depend on the type set stored at its root"""
    return atom(with_dt(e, t), rho) == atom(e, rho)


@lemma(axiom=True, auto=('ev',))
def dom_ignores_types(d: 'Expr', t: 'DT', rho: 'Env') -> 'Bool':
    """A-SEM-1 (domains): the members of a domain do not depend on the type set stored at its root"""
    return dom(with_dt(d, t), rho) == dom(d, rho)


@lemma(axiom=True)
def ev_frame(e: 'Expr', v: 'Str', x: 'Val', rho: 'Env') -> 'Bool':
    """A-SEM-2: the truth value of an expression does not depend on a variable it does not mention"""
    return mentions(e, v) or ev(e, bind(rho, v, x)) == ev(e, rho)


@lemma(axiom=True)
def dom_frame(d: 'Expr', v: 'Str', x: 'Val', rho: 'Env') -> 'Bool':
    """A-SEM-2 (domains): the members of a domain do not depend on a variable it does not mention"""
    return mentions(d, v) or dom(d, bind(rho, v, x)) == dom(d, rho)


@spec(inline=True)
def is_empty_test(e: 'Expr', d: 'Expr') -> 'Bool':
    """e is the expression `len(d) = 0` (whatever type sets are stored in it)"""
    return isinstance(e, HplBinaryOperator) and e.operator.token == '=' \
        and isinstance(e.operand1, HplFunctionCall) and e.operand1.function.name == 'len' \
        and len(e.operand1.arguments) == 1 and with_dt(e.operand1.arguments[0], ANY) == with_dt(d, ANY) \
        and isinstance(e.operand2, HplLiteral) and e.operand2.value == 0


@lemma(axiom=True)
def empty_test_sem(e: 'Expr', d: 'Expr') -> 'Bool':
    """A-SEM-3: `len(d) = 0` is true exactly when the domain d has no members"""
    return (not is_empty_test(e, d)) or forall_env(lambda rho: atom(e, rho) == (len(dom(d, rho)) == 0))


# ------------------------------------------------------------------------------------------------ lemmas

@lemma(auto=('ev',))
def ev_ignores_types(e: 'Expr', t: 'DT', rho: 'Env') -> 'Bool':
    """stored type sets at the root of an expression do not change its truth value"""
    return ev(with_dt(e, t), rho) == ev(e, rho)


@spec(inline=True)
def is_neg(e: 'Expr') -> 'Bool':
    return isinstance(e, HplUnaryOperator) and e.operator.token == 'not'


@spec(inline=True)
def is_conj(e: 'Expr') -> 'Bool':
    return isinstance(e, HplBinaryOperator) and e.operator.token == 'and'


def _pat0(e, t):
    return with_dt(e, t)


@lemma(auto=('ev',), patterns=_pat0)
def equiv_types(e: 'Expr', t: 'DT') -> 'Bool':
    return equiv(with_dt(e, t), e)


def _pat1(a, b):
    return equiv(a, b)

@lemma(auto=('ev',), patterns=_pat1)
def equiv_sym(a: 'Expr', b: 'Expr') -> 'Bool':
    return (not equiv(a, b)) or equiv(b, a)


def _pat2(a, b, c):
    return (equiv(a, b), equiv(b, c))

@lemma(auto=('ev',), patterns=_pat2)
def equiv_trans(a: 'Expr', b: 'Expr', c: 'Expr') -> 'Bool':
    return (not (equiv(a, b) and equiv(b, c))) or equiv(a, c)


# ---- quantifier bodies: folds over the members of a domain

def _pat3(s, p, q, v, rho):
    return (equiv(p, q), all(ev(p, bind(rho, v, x)) for x in s))

@lemma(induction_on='s', auto=('ev',),
       patterns=_pat3)
def all_cong(s: 'Seq[Val]', p: 'Expr', q: 'Expr', v: 'Str', rho: 'Env') -> 'Bool':
    """equivalent bodies: same universal fold"""
    return (not equiv(p, q)) \
        or (all(ev(p, bind(rho, v, x)) for x in s) == all(ev(q, bind(rho, v, x)) for x in s))


def _pat4(s, p, q, v, rho):
    return (equiv(p, q), any(ev(p, bind(rho, v, x)) for x in s))

@lemma(induction_on='s', auto=('ev',),
       patterns=_pat4)
def any_cong(s: 'Seq[Val]', p: 'Expr', q: 'Expr', v: 'Str', rho: 'Env') -> 'Bool':
    """equivalent bodies: same existential fold"""
    return (not equiv(p, q)) \
        or (any(ev(p, bind(rho, v, x)) for x in s) == any(ev(q, bind(rho, v, x)) for x in s))


def _pat5(s, c, v, rho):
    # only for a body whose first operand is already spoken of (no chain of instances down the operands)
    return (all(ev(c, bind(rho, v, x)) for x in s), raw_field(c, 'HplBinaryOperator', 'operand1'))

@lemma(induction_on='s', auto=('ev',), patterns=_pat5)
def all_and(s: 'Seq[Val]', c: 'Expr', v: 'Str', rho: 'Env') -> 'Bool':
    """(A x: p & q)  ==  (A x: p) & (A x: q)"""
    return (not is_conj(c)) \
        or (all(ev(c, bind(rho, v, x)) for x in s)
            == (all(ev(c.operand1, bind(rho, v, x)) for x in s) and all(ev(c.operand2, bind(rho, v, x)) for x in s)))


def _all_const_hint(s, p, v, rho):
    if len(s) > 0:
        ev_frame(p, v, s[0], rho)


def _pat6(s, p, v, rho):
    return all(ev(p, bind(rho, v, x)) for x in s)

@lemma(induction_on='s', auto=('ev',), hint=_all_const_hint,
       patterns=_pat6)
def all_const(s: 'Seq[Val]', p: 'Expr', v: 'Str', rho: 'Env') -> 'Bool':
    """(A x: p) with x not in p  ==  (the domain is empty) | p"""
    return mentions(p, v) or (all(ev(p, bind(rho, v, x)) for x in s) == (len(s) == 0 or ev(p, rho)))


def _pat7(s, p, v, rho):
    return (all(ev(p, bind(rho, v, x)) for x in s), raw_field(p, 'HplUnaryOperator', 'operand'))

@lemma(induction_on='s', auto=('ev',), patterns=_pat7)
def all_neg(s: 'Seq[Val]', p: 'Expr', v: 'Str', rho: 'Env') -> 'Bool':
    """(A x: ~c)  ==  ~(E x: c)"""
    return (not is_neg(p)) \
        or (all(ev(p, bind(rho, v, x)) for x in s) == (not any(ev(p.operand, bind(rho, v, x)) for x in s)))


# ---- conjunction of a list (work lists of split_and)

def _pat8(s, c, rho):
    return conj(s + (c,), rho)


@lemma(induction_on='s', auto=('conj',), patterns=_pat8)
def conj_snoc(s: 'Seq[Expr]', c: 'Expr', rho: 'Env') -> 'Bool':
    return conj(s + (c,), rho) == (conj(s, rho) and ev(c, rho))


def _pat9(s, t, rho):
    return conj(s + t, rho)


@lemma(induction_on='s', auto=('conj',), patterns=_pat9)
def conj_append(s: 'Seq[Expr]', t: 'Seq[Expr]', rho: 'Env') -> 'Bool':
    return conj(s + t, rho) == (conj(s, rho) and conj(t, rho))


def _pat10(u, rho):
    return conj(u, rho)


@lemma(auto=('conj',), patterns=_pat10)
def conj_unit(u: 'Seq[Expr]', rho: 'Env') -> 'Bool':
    return len(u) != 1 or conj(u, rho) == ev(u[0], rho)


def _conj_last_hint(s, rho):
    if len(s) > 0:
        conj_snoc(s[:-1], s[-1], rho)


@lemma(hint=_conj_last_hint)
def conj_last(s: 'Seq[Expr]', rho: 'Env') -> 'Bool':
    return len(s) == 0 or (s[:-1] + (s[-1],) == s and conj(s, rho) == (conj(s[:-1], rho) and ev(s[-1], rho)))


# ---- stored type sets do not matter to the reference queries either (proved: one unfolding)

def _patm(e, t, a):
    return mentions(with_dt(e, t), a)


@lemma(auto=('mentions',), patterns=_patm)
def mentions_ignores_types(e: 'Expr', t: 'DT', a: 'Str') -> 'Bool':
    return mentions(with_dt(e, t), a) == mentions(e, a)


def _patw(e, t):
    return wf_q(with_dt(e, t))


@lemma(auto=('wf_q',), patterns=_patw)
def wfq_ignores_types(e: 'Expr', t: 'DT') -> 'Bool':
    return wf_q(with_dt(e, t)) == wf_q(e)


# ---- one-step structure of the reference queries on operator nodes (each proved by one unfolding, so that
#      obligations about rebuilt operator nodes need no deep unfolding of the big specs)

def _patmb(e, a):
    return (mentions(e, a), raw_field(e, 'HplBinaryOperator', 'operand1'))


@lemma(auto=('mentions',), patterns=_patmb)
def mentions_binary(e: 'Expr', a: 'Str') -> 'Bool':
    return (not isinstance(e, HplBinaryOperator)) \
        or mentions(e, a) == (mentions(e.operand1, a) or mentions(e.operand2, a))


def _patmu(e, a):
    return (mentions(e, a), raw_field(e, 'HplUnaryOperator', 'operand'))


@lemma(auto=('mentions',), patterns=_patmu)
def mentions_unary(e: 'Expr', a: 'Str') -> 'Bool':
    return (not isinstance(e, HplUnaryOperator)) or mentions(e, a) == mentions(e.operand, a)


def _patwb(e):
    return (wf_q(e), raw_field(e, 'HplBinaryOperator', 'operand1'))


@lemma(auto=('wf_q',), patterns=_patwb)
def wfq_binary(e: 'Expr') -> 'Bool':
    return (not isinstance(e, HplBinaryOperator)) or wf_q(e) == (wf_q(e.operand1) and wf_q(e.operand2))


def _patwu(e):
    return (wf_q(e), raw_field(e, 'HplUnaryOperator', 'operand'))


@lemma(auto=('wf_q',), patterns=_patwu)
def wfq_unary(e: 'Expr') -> 'Bool':
    return (not isinstance(e, HplUnaryOperator)) or wf_q(e) == wf_q(e.operand)


def _patwtb(e):
    return (wt(e), raw_field(e, 'HplBinaryOperator', 'operand1'))


@lemma(auto=('wt',), patterns=_patwtb)
def wt_binary_operands(e: 'Expr') -> 'Bool':
    """the operands of a well-typed operator node are well-typed (one unfolding of wt, done once here)"""
    return (not (isinstance(e, HplBinaryOperator) and wt(e))) or (wt(e.operand1) and wt(e.operand2))


def _patwtu(e):
    return (wt(e), raw_field(e, 'HplUnaryOperator', 'operand'))


@lemma(auto=('wt',), patterns=_patwtu)
def wt_unary_operand(e: 'Expr') -> 'Bool':
    return (not (isinstance(e, HplUnaryOperator) and wt(e))) or wt(e.operand)


def _patwtq(e):
    return (wt(e), raw_field(e, 'HplQuantifier', 'condition'))


@lemma(auto=('wt',), patterns=_patwtq)
def wt_quantifier_parts(e: 'Expr') -> 'Bool':
    return (not (isinstance(e, HplQuantifier) and wt(e))) \
        or (wt(e.domain) and wt(e.condition) and e.condition.data_type == BOOL and e.data_type == BOOL)


# ---- rebuilt nodes: equivalences that code establishes inline (no callee contract to carry them)

@spec(inline=True)
def is_disj(e: 'Expr') -> 'Bool':
    return isinstance(e, HplBinaryOperator) and e.operator.token == 'or'


def _patdm(x, y):
    # x.operand1.operand and y.operand.operand1 must both be spoken of: few (x, y) pairs qualify
    return (raw_field(raw_field(x, 'HplBinaryOperator', 'operand1'), 'HplUnaryOperator', 'operand'),
            raw_field(raw_field(y, 'HplUnaryOperator', 'operand'), 'HplBinaryOperator', 'operand1'))


@lemma(auto=('ev',), patterns=_patdm)
def de_morgan_equiv(x: 'Expr', y: 'Expr') -> 'Bool':
    """~a' & ~b'  ==  ~(a | b)   when a' == a and b' == b"""
    return (not (is_conj(x) and is_neg(x.operand1) and is_neg(x.operand2) and is_neg(y) and is_disj(y.operand)
                 and equiv(x.operand1.operand, y.operand.operand1)
                 and equiv(x.operand2.operand, y.operand.operand2))) \
        or equiv(x, y)


def _patmet(e, d, a):
    return (mentions(e, a), mentions(d, a))


@lemma(auto=('mentions',), patterns=_patmet)
def mentions_empty_test(e: 'Expr', d: 'Expr', a: 'Str') -> 'Bool':
    """`len(d) = 0` mentions exactly what d mentions"""
    return (not is_empty_test(e, d)) or mentions(e, a) == mentions(d, a)


@lemma(auto=('wt',), patterns=_patwtb)
def bool_binary_operands(e: 'Expr') -> 'Bool':
    """the operands of a well-typed boolean connective are boolean"""
    return (not (isinstance(e, HplBinaryOperator) and wt(e)
                 and (e.operator.token == 'and' or e.operator.token == 'or' or e.operator.token == 'implies'
                      or e.operator.token == 'iff'))) \
        or (e.operand1.data_type == BOOL and e.operand2.data_type == BOOL and e.data_type == BOOL)


@lemma(auto=('wt',), patterns=_patwtu)
def bool_unary_operand(e: 'Expr') -> 'Bool':
    return (not (isinstance(e, HplUnaryOperator) and wt(e) and e.operator.token == 'not')) \
        or (e.operand.data_type == BOOL and e.data_type == BOOL)
