"""lemmas about the semantics"""
