"""C20 - type-set narrowing is set intersection (hpl.types.DataType).

Clause provenance: every clause below is taken from the statement of C20 unless marked @aux."""
from hpl.types import DataType
from pyvc.contracts import contract, invariant, lemma, aux, tag
from specs.lattice import meet, join, fold_or, subset, BASE_FLAGS

NONE = DataType.NONE


@contract('hpl.types.DataType.cast', props=['C20'])
class DataType_cast:
    def raises_TypeError(self, t):
        # "succeeds exactly when they share a base type ... raising a type error otherwise"
        return meet(self, t) == NONE

    def returns(self, t):
        # "yields exactly the shared base types"
        return meet(self, t)


@contract('hpl.types.DataType.can_be', props=['C20'])
class DataType_can_be:
    def returns(self, t):
        # "can_be is non-empty intersection"
        return meet(self, t) != NONE


@contract('hpl.types.DataType.union', props=['C20'])
class DataType_union:
    params = {'types': 'Seq[DT]'}

    def returns(types):
        return fold_or(types)


@invariant('hpl.types.DataType.union', loop=0, types={'result': 'DT'})
def _union_inv(result, rest, all):
    # written over the unprocessed suffix so that one unfolding of fold_or proves the step
    return result | fold_or(rest) == fold_or(all)


def _mk_can_be(prop_name, flag):
    @contract(f'hpl.types.DataType.{prop_name}', props=['C20'])
    class _C:
        def returns(self):
            return meet(self, flag) != NONE
    return _C


for _n, _f in (('can_be_bool', DataType.BOOL), ('can_be_number', DataType.NUMBER),
               ('can_be_string', DataType.STRING), ('can_be_array', DataType.ARRAY),
               ('can_be_set', DataType.SET), ('can_be_range', DataType.RANGE),
               ('can_be_message', DataType.MESSAGE)):
    _mk_can_be(_n, _f)


# ---- lemmas over the contracts ("hence narrowing is idempotent, commutative, associative and monotone ...")

@lemma(props=['C20'])
def meet_idempotent(a: 'DT'):
    return meet(a, a) == a


@lemma(props=['C20'])
def meet_commutative(a: 'DT', b: 'DT'):
    return meet(a, b) == meet(b, a)


@lemma(props=['C20'])
def meet_associative(a: 'DT', b: 'DT', c: 'DT'):
    return meet(meet(a, b), c) == meet(a, meet(b, c))


@lemma(props=['C20'])
def meet_monotone(a: 'DT', b: 'DT', c: 'DT'):
    return (not subset(a, b)) or subset(meet(a, c), meet(b, c))


@lemma(props=['C20'])
def meet_nonempty_iff_shared_base(a: 'DT', b: 'DT'):
    # "succeeds exactly when they share a base type"
    shared = any((a & f) != NONE and (b & f) != NONE for f in BASE_FLAGS)
    return (meet(a, b) != NONE) == shared


@lemma(props=['C20'])
def meet_is_glb(a: 'DT', b: 'DT', c: 'DT'):
    lower = subset(meet(a, b), a) and subset(meet(a, b), b)
    greatest = (not (subset(c, a) and subset(c, b))) or subset(c, meet(a, b))
    return lower and greatest


@lemma(induction_on='ts', props=['C20'])
def all_below_monotone(ts: 'Seq[DT]', u: 'DT', v: 'DT'):
    return (not (all_below(ts, u) and subset(u, v))) or all_below(ts, v)


def _ub_hint(ts):
    all_below_monotone(ts[1:], fold_or(ts[1:]), fold_or(ts))      # instance of a proved lemma


@lemma(induction_on='ts', props=['C20'], hint=_ub_hint)
def union_is_upper_bound(ts: 'Seq[DT]'):
    # "union is the least upper bound": (1) it is above every element
    return all_below(ts, fold_or(ts))


@lemma(induction_on='ts', props=['C20'])
def union_is_least(ts: 'Seq[DT]', u: 'DT'):
    # every upper bound u of the elements is above the union
    return (not all_below(ts, u)) or subset(fold_or(ts), u)


from specs.lattice import all_below  # noqa: E402
