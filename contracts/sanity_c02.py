"""C02 - a property is accepted iff every alias reference is bound earlier, once."""
from hpl.errors import HplSanityError
from pyvc.contracts import contract, invariant, lemma, spec, aux, tag, unfold
import contracts.queries_c15_events  # noqa: F401
from specs.sanity import sane, wf_scope, wf_pattern, refs_ok, dup
from specs.events import ev_refs, wf_event


@contract('hpl.ast.properties.HplProperty._check_refs_defined', props=['C02'])
class Property_check_refs_defined:
    @aux
    def requires(event, available):
        return wf_event(event)

    def raises_HplSanityError(event, available):
        # (i) "every @name used in an event's predicate is ... bound by an event that precedes it"
        return not refs_ok(event, available)


@contract('hpl.ast.properties.HplProperty._check_duplicates', props=['C02'])
class Property_check_duplicates:
    def raises_HplSanityError(aliases, available):
        # (ii) "no alias is bound a second time along that chain"
        return dup(aliases, available)


@contract('hpl.ast.properties.HplProperty.__init__', props=['C02'])
class Property_init:
    result = 'Property'

    @aux
    def requires(scope, pattern):
        # scope and pattern are themselves constructed objects (their validators ran)
        return wf_scope(scope) and wf_pattern(pattern)

    def raises_HplSanityError(scope, pattern):
        # "accepted exactly when (i)...(ii)... Otherwise it is rejected with a sanity error"
        return not sane(scope, pattern)

    def ensures(scope, pattern, result):
        return result.scope == scope and result.pattern == pattern
