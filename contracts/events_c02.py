"""C02 (iii) - no channel occurs twice inside one event disjunction: HplEventDisjunction construction."""
from hpl.ast.events import HplSimpleEvent, HplEventDisjunction
from hpl.errors import HplSanityError
from pyvc.contracts import contract, invariant, lemma, spec, aux, tag, unfold
import contracts.queries_c15_events  # noqa: F401
from specs.events import alts, channels_ok, distinct_channels


@lemma(props=['C02'])
def concat_nth(a: 'Seq[Event]', b: 'Seq[Event]', i: 'Int'):
    inside = 0 <= i and i < len(a) + len(b)
    return (not inside) or ((a + b)[i] == a[i] if i < len(a) else (a + b)[i] == b[i - len(a)])


def _aas_hint(ev, i):
    if isinstance(ev, HplEventDisjunction):
        concat_nth(alts(ev.event1), alts(ev.event2), i)


@lemma(induction_on='ev', props=['C02'], hint=_aas_hint)
def alts_are_simple(ev: 'Event', i: 'Int'):
    """every flattened alternative is a simple event"""
    return (not (0 <= i and i < len(alts(ev)))) or isinstance(alts(ev)[i], HplSimpleEvent)


alts_are_simple._generalize = ('i',)


@contract('hpl.ast.events.HplEventDisjunction.__init__', props=['C02'])
class Disjunction_init:
    result = 'Event'

    def raises_HplSanityError(event1, event2):
        # (iii) "no channel occurs twice inside one event disjunction"
        return not distinct_channels(alts(event1) + alts(event2))

    def ensures(event1, event2, result):
        return isinstance(result, HplEventDisjunction) and result.event1 == event1 and result.event2 == event2


def _dup_hint(self, old_pending):
    i = len(old_pending) - 1
    alts_are_simple(self.event1, i)
    alts_are_simple(self.event2, i - len(alts(self.event1)))


def _dup_pre_hint(self, pending):
    i = len(pending) - 1
    alts_are_simple(self.event1, i)
    alts_are_simple(self.event2, i - len(alts(self.event1)))
    concat_nth(alts(self.event1), alts(self.event2), i)


@invariant('hpl.ast.events.HplEventDisjunction.__attrs_post_init__', loop=0,
           types={'names': 'Set[Str]', 'pending': 'Seq[Event]', 'event': 'Event'}, hint=_dup_hint, pre_hint=_dup_pre_hint)
def _dup_inv(self, names, pending):
    everything = alts(self.event1) + alts(self.event2)
    return pending == everything[:len(pending)] \
        and distinct_channels(everything) == channels_ok(names, pending)
