"""C15 - reference queries report exactly the references that occur (expression level)."""
from hpl.ast.expressions import HplExpression, HplQuantifier, HplSet, HplFunctionCall
from pyvc.contracts import contract, invariant, lemma, spec, aux, tag, unfold
from specs.tree import (slots, refs as refs_of, refs_all, mentions, mentions_this, binds, preorder, preorder_all,
                        preorder_stack, rev, wf_q)


@contract('hpl.ast.expressions.HplExpression.children', virtual=True, props=['C15'])
class Expr_children:
    inline_when_known = True

    def returns(self):
        return slots(self)


# ---- a consequence used by callers: a variable that is mentioned and not re-bound occurs free

@spec
def free_if_mentioned_unbound(e: 'Expr', a: 'Str') -> 'Bool':
    return (not (mentions(e, a) and not binds(e, a))) or (a in refs_of(e))


@lemma(induction_on='es', props=['C15'])
def mentioned_unbound_is_free_list(es: 'Seq[Expr]', a: 'Str'):
    elems = all(free_if_mentioned_unbound(c, a) for c in es)
    some = any(mentions(c, a) for c in es) and not any(binds(c, a) for c in es)
    return (not (elems and some)) or (a in refs_all(es))


def _mu_hint(e, a):
    if isinstance(e, HplSet):
        mentioned_unbound_is_free_list(e.values, a)
    if isinstance(e, HplFunctionCall):
        mentioned_unbound_is_free_list(e.arguments, a)


@lemma(induction_on='e', props=['C15'], hint=_mu_hint)
def mentioned_unbound_is_free(e: 'Expr', a: 'Str'):
    return free_if_mentioned_unbound(e, a)


@contract('hpl.ast.expressions.HplExpression.external_references', virtual=True, props=['C15'])
class Expr_external_references:
    result = 'Set[Str]'

    @aux
    def requires(self):
        # class invariant of quantifiers (established by the constructor, C02 (iv)): needed so that
        # set.remove() in the quantifier override cannot fail
        return wf_q(self)

    def hint(self):
        if isinstance(self, HplQuantifier):
            mentioned_unbound_is_free(self.condition, self.variable)

    def returns(self):
        # "exactly the names of @ variables that occur free - not bound by an enclosing quantifier"
        return refs_of(self)


@invariant('hpl.ast.expressions.HplExpression.external_references', loop=0, types={'refs': 'Set[Str]'})
def _extrefs_inv(refs, rest, all):
    # the unprocessed children still satisfy the class invariant; the processed ones are accounted for
    return all_wf(rest) and (refs | refs_all(rest)) == refs_all(all)


def all_wf(es):
    return all(wf_q(c) for c in es)


@contract('hpl.ast.expressions.HplExpression.contains_reference', virtual=True, props=['C15'])
class Expr_contains_reference:
    def returns(self, alias):
        # "contains_reference(a) holds iff @a occurs anywhere"
        return mentions(self, alias)


@contract('hpl.ast.expressions.HplExpression.contains_self_reference', virtual=True, props=['C15'])
class Expr_contains_self_reference:
    def returns(self):
        # "contains_self_reference() iff the current message is referenced"
        return mentions_this(self)


@contract('hpl.ast.expressions.HplExpression.contains_definition', virtual=True, props=['C15'])
class Expr_contains_definition:
    def returns(self, alias):
        # "contains_definition(a) iff some quantifier binds a"
        return binds(self, alias)


@contract('hpl.ast.expressions.HplExpression.iterate', virtual=True, props=['C15'])
class Expr_iterate:
    result = 'Seq[Expr]'

    def returns(self):
        # "iterate() visits every node of a tree exactly once, parents before children, left to right"
        return preorder(self)


@lemma(props=['C15'])
def rev_unfold(x: 'Seq[Expr]'):
    return len(x) == 0 or rev(x) == rev(x[1:]) + (x[0],)


@lemma(props=['C15'])
def snoc_last(x: 'Seq[Expr]', c: 'Expr'):
    return (x + (c,))[-1] == c and (x + (c,))[:-1] == x


@lemma(props=['C15'])
def preorder_stack_unfold(x: 'Seq[Expr]'):
    return len(x) == 0 or preorder_stack(x) == preorder(x[-1]) + preorder_stack(x[:-1])


@lemma(props=['C15'])
def preorder_all_unfold(x: 'Seq[Expr]'):
    return len(x) == 0 or preorder_all(x) == preorder(x[0]) + preorder_all(x[1:])


def _spr_hint(ch, s):
    if len(ch) > 0:
        rev_unfold(ch)
        snoc_last(s + rev(ch[1:]), ch[0])
        preorder_stack_unfold(s + rev(ch[1:]) + (ch[0],))
        preorder_all_unfold(ch)


@lemma(induction_on='ch', props=['C15'], hint=_spr_hint)
def stack_push_rev(ch: 'Seq[Expr]', s: 'Seq[Expr]'):
    """pushing the children reversed makes the stack visit them in source order, before the rest"""
    return preorder_stack(s + rev(ch)) == preorder_all(ch) + preorder_stack(s)


def _iterate_hint(obj, old_stack):
    preorder_stack_unfold(old_stack)
    unfold(preorder, obj)
    stack_push_rev(slots(obj), old_stack[:-1])


@invariant('hpl.ast.base.HplAstObject.iterate', loop=0, types={'$yielded': 'Seq[Expr]', 'obj': 'Expr'},
           hint=_iterate_hint)
def _iterate_inv(self, stack, yielded):
    return yielded + preorder_stack(stack) == preorder(self)


