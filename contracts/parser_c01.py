"""C01 / C18 / C07 / C19 - the tree-building callbacks of PropertyTransformer (what the grammar's actions do).

Preconditions are the child shapes Lark passes for each rule (read off the grammar: e.g. time_amount gets a
NUMBER lexeme and a TIME_UNIT in {"s", "ms"}); that Lark calls the callbacks bottom-up with exactly these shapes is
assumption A-LARK-CALL (bounded tier).  Postconditions are taken from the statement of C01 / C18."""
from hpl.ast.expressions import (HplBinaryOperator, HplUnaryOperator, HplRange, HplLiteral, HplVarReference, HplFieldAccess,
                                 HplArrayAccess, HplThisMessage, BuiltinBinaryOperator, BuiltinUnaryOperator)
from hpl.ast.properties import HplPattern, HplScope, PatternType, ScopeType
from hpl.errors import HplSyntaxError
from hpl.parser import PropertyTransformer
from hpl.types import DataType
from pyvc.contracts import contract, invariant, lemma, spec, aux, tag
import contracts.typing_c03  # noqa: F401  (constructor contracts)
import contracts.sanity_c02  # noqa: F401
from specs.typing import wt, with_dt, NONE, NUMBER, BOOL, MESSAGE, ARRAY
from specs.sanity import wf_scope, wf_pattern
from specs.events import wf_event

T = ('concrete', PropertyTransformer())
INF = float('inf')


def str_is_float(s):
    """the lexeme is a NUMBER of the grammar (float() accepts it); natively: try the conversion"""
    try:
        float(s)
        return True
    except ValueError:
        return False


@contract('hpl.parser.PropertyTransformer.time_amount', props=['C01'])
class time_amount:
    params = {'self': T, 'num': 'Str', 'unit': 'Str'}

    @aux
    def requires(self, num, unit):
        # rule  time_amount: NUMBER TIME_UNIT  with  TIME_UNIT: "s" | "ms"
        return str_is_float(num) and (unit == 's' or unit == 'ms')

    def returns(self, num, unit):
        # "conversion of ms to seconds"
        return float(num) / 1000.0 if unit == 'ms' else float(num)


@contract('hpl.parser.PropertyTransformer.range_literal', props=['C01'])
class range_literal:
    result = 'Expr'
    params = {'self': T, 'lr': 'Str', 'lb': 'Expr', 'ub': 'Expr', 'rr': 'Str'}

    @aux
    def requires(self, lr, lb, ub, rr):
        # rule  range_literal: _start_range expr _KW_TO expr _end_range ;  L_RANGE_EXC "![", L_RANGE_INC "[", ...
        return (lr == '![' or lr == '[') and (rr == ']!' or rr == ']') and wt(lb) and wt(ub)

    @tag('C05')
    def raises_TypeError(self, lr, lb, ub, rr):
        return (lb.data_type & NUMBER) == NONE or (ub.data_type & NUMBER) == NONE

    def ensures_bounds(self, lr, lb, ub, rr, result):
        # "range-bound exclusivity": '![' / ']!' exclude the bound they stand next to
        return isinstance(result, HplRange) and result.exclude_min == (lr == '![') and result.exclude_max == (rr == ']!') \
            and result.min_value == with_dt(lb, lb.data_type & NUMBER) and result.max_value == with_dt(ub, ub.data_type & NUMBER)

    @tag('C03')
    def ensures_wt(self, lr, lb, ub, rr, result):
        return wt(result)


# ---------------------------------------------------------------- binary operator chains

from contracts.typing_c03 import Binary_init, Unary_init  # noqa: E402
from specs.typing import BINARY_DEFS, UNARY_DEFS, builtin_binary  # noqa: E402
from pyvc.values import SV, Box  # noqa: E402
from pyvc.classtable import TNode, TStr  # noqa: E402
import z3  # noqa: E402


def binary_def(token):
    """the built-in operator definition whose token is `token` (None if there is none)"""
    for d in BINARY_DEFS:
        if d.token == token:
            return d
    return None


def unary_def(token):
    for d in UNARY_DEFS:
        if d.token == token:
            return d
    return None


def shape_children(it, ct, arg):
    """children of a left-recursive binary rule: 1 (pass-through) or 3 (lhs, OPERATOR token, rhs)"""
    E = ct.sorts['Expr']
    if arg == '1':
        kids = [SV(z3.Const('c0', E), TNode('Expr'), oid=('param', 'c0'))]
    else:
        # arg = '3:<operator token>': one task per operator token of the grammar (the token is concrete)
        token = arg.split(':', 1)[1]
        kids = [SV(z3.Const('c0', E), TNode('Expr'), oid=('param', 'c0')), token,
                SV(z3.Const('c2', E), TNode('Expr'), oid=('param', 'c2'))]
    return {'children': Box('list', items=kids)}, []


@contract('hpl.parser.PropertyTransformer._lr_binop', props=['C01'])
class lr_binop:
    result = 'Expr'
    params = {'self': T, 'children': ('concrete', None)}

    @aux
    def requires(self, children):
        if len(children) == 1:
            return wt(children[0])
        # the middle child is an operator token of the grammar, i.e. the token of a built-in binary operator
        return len(children) == 3 and binary_def(children[1]) is not None and wt(children[0]) and wt(children[2])

    @tag('C05')
    def raises_TypeError(self, children):
        if len(children) == 1:
            return False
        return Binary_init.raises_TypeError(binary_def(children[1]), children[0], children[2], None)

    def ensures_tree(self, children, result):
        if len(children) == 1:
            return result is children[0]
        # "operator identity and operand order": left child is operand1, right child operand2
        return Binary_init.ensures_value(binary_def(children[1]), children[0], children[2], None, result)

    @tag('C03')
    def ensures_wt(self, children, result):
        return wt(result)


@contract('hpl.parser.PropertyTransformer.negation', props=['C01'])
class negation:
    result = 'Expr'
    params = {'self': T, 'token': 'Str', 'phi': 'Expr'}

    @aux
    def requires(self, token, phi):
        return token == 'not' and wt(phi)

    @tag('C05')
    def raises_TypeError(self, token, phi):
        return (phi.data_type & BOOL) == NONE

    def ensures_tree(self, token, phi, result):
        return Unary_init.ensures_value(unary_def('not'), phi, None, result)


@contract('hpl.parser.PropertyTransformer.negative_number', props=['C01'])
class negative_number:
    result = 'Expr'
    params = {'self': T, 'token': 'Str', 'n': 'Expr'}

    @aux
    def requires(self, token, n):
        return token == '-' and wt(n)

    @tag('C05')
    def raises_TypeError(self, token, n):
        return (n.data_type & NUMBER) == NONE

    def ensures_tree(self, token, n, result):
        return Unary_init.ensures_value(unary_def('-'), n, None, result)


# ---------------------------------------------------------------- atoms

@contract('hpl.parser.PropertyTransformer.boolean', props=['C01'])
class boolean:
    result = 'Expr'
    params = {'self': T, 'token': 'Str'}

    @aux
    def requires(self, token):
        return token == 'True' or token == 'False'

    def ensures_tree(self, token, result):
        return isinstance(result, HplLiteral) and result.token == token and result.value is (token == 'True') \
            and result.data_type == BOOL


@contract('hpl.parser.PropertyTransformer.variable', props=['C01'])
class variable:
    result = 'Expr'
    params = {'self': T, 'token': 'Str'}

    def ensures_tree(self, token, result):
        return isinstance(result, HplVarReference) and result.token == token


@contract('hpl.parser.PropertyTransformer.own_field', props=['C01'])
class own_field:
    result = 'Expr'
    params = {'self': T, 'token': 'Str'}

    def ensures_tree(self, token, result):
        return isinstance(result, HplFieldAccess) and result.field == token and isinstance(result.message, HplThisMessage) \
            and wt(result)


@contract('hpl.parser.PropertyTransformer.field_access', props=['C01'])
class field_access:
    result = 'Expr'
    params = {'self': T, 'ref': 'Expr', 'token': 'Str'}

    @aux
    def requires(self, ref, token):
        return wt(ref)

    @tag('C05')
    def raises_TypeError(self, ref, token):
        return (ref.data_type & MESSAGE) == NONE

    def ensures_tree(self, ref, token, result):
        # "field/index chains": the accessed object is the reference to the left of the dot
        return isinstance(result, HplFieldAccess) and result.field == token \
            and result.message == with_dt(ref, ref.data_type & MESSAGE) and wt(result)


@contract('hpl.parser.PropertyTransformer.array_access', props=['C01'])
class array_access:
    result = 'Expr'
    params = {'self': T, 'ref': 'Expr', 'index': 'Expr'}

    @aux
    def requires(self, ref, index):
        return wt(ref) and wt(index)

    @tag('C05')
    def raises_TypeError(self, ref, index):
        return (ref.data_type & ARRAY) == NONE or (index.data_type & NUMBER) == NONE

    def ensures_tree(self, ref, index, result):
        return isinstance(result, HplArrayAccess) and result.array == with_dt(ref, ref.data_type & ARRAY) \
            and result.index == with_dt(index, index.data_type & NUMBER) and wt(result)


# ---------------------------------------------------------------- patterns and scopes: role mapping

def _pattern(kind, behaviour, trigger, t, result):
    mt = INF if t is None else t
    return isinstance(result, HplPattern) and result.pattern_type is kind and result.behaviour == behaviour \
        and result.trigger == trigger and result.max_time == mt and result.min_time == 0.0


def _pre_pattern(t):
    return t is None or t >= 0.0


@contract('hpl.parser.PropertyTransformer.response', props=['C01'])
class response:
    result = 'Pattern'
    params = {'self': T, 'a': 'Event', 'b': 'Event', 't': 'Opt[Real]'}

    @aux
    def requires(self, a, b, t):
        return _pre_pattern(t)

    def ensures_roles(self, a, b, t, result):
        # `a causes b`: a is the trigger, b the behaviour; max_time = INF when no bound is given
        return _pattern(PatternType.RESPONSE, b, a, t, result)


@contract('hpl.parser.PropertyTransformer.prevention', props=['C01'])
class prevention:
    result = 'Pattern'
    params = {'self': T, 'a': 'Event', 'b': 'Event', 't': 'Opt[Real]'}

    @aux
    def requires(self, a, b, t):
        return _pre_pattern(t)

    def ensures_roles(self, a, b, t, result):
        # `a forbids b`
        return _pattern(PatternType.PREVENTION, b, a, t, result)


@contract('hpl.parser.PropertyTransformer.requirement', props=['C01'])
class requirement:
    result = 'Pattern'
    params = {'self': T, 'b': 'Event', 'a': 'Event', 't': 'Opt[Real]'}

    @aux
    def requires(self, b, a, t):
        return _pre_pattern(t)

    def ensures_roles(self, b, a, t, result):
        # `b requires a`: the first event is the behaviour, the second the (earlier) trigger
        return _pattern(PatternType.REQUIREMENT, b, a, t, result)


@contract('hpl.parser.PropertyTransformer.existence', props=['C01'])
class existence:
    result = 'Pattern'
    params = {'self': T, 'b': 'Event', 't': 'Opt[Real]'}

    @aux
    def requires(self, b, t):
        return _pre_pattern(t)

    def ensures_roles(self, b, t, result):
        return _pattern(PatternType.EXISTENCE, b, None, t, result)


@contract('hpl.parser.PropertyTransformer.absence', props=['C01'])
class absence:
    result = 'Pattern'
    params = {'self': T, 'b': 'Event', 't': 'Opt[Real]'}

    @aux
    def requires(self, b, t):
        return _pre_pattern(t)

    def ensures_roles(self, b, t, result):
        return _pattern(PatternType.ABSENCE, b, None, t, result)


@contract('hpl.parser.PropertyTransformer.after_until', props=['C01'])
class after_until:
    result = 'Scope'
    params = {'self': T, 'p': 'Event', 'q': 'Opt[Event]'}

    def ensures_roles(self, p, q, result):
        kind = ScopeType.AFTER if q is None else ScopeType.AFTER_UNTIL
        return isinstance(result, HplScope) and result.scope_type is kind and result.activator == p and result.terminator == q


@contract('hpl.parser.PropertyTransformer.until', props=['C01'])
class until:
    result = 'Scope'
    params = {'self': T, 'event': 'Event'}

    def ensures_roles(self, event, result):
        return isinstance(result, HplScope) and result.scope_type is ScopeType.UNTIL and result.activator is None \
            and result.terminator == event


# ---------------------------------------------------------------- literals

def str_is_int(s):
    try:
        int(s)
        return True
    except ValueError:
        return False


@contract('hpl.parser.PropertyTransformer.number', props=['C01'])
class number:
    result = 'Expr'
    params = {'self': T, 'token': 'Str'}

    @aux
    def requires(self, token):
        return str_is_float(token)       # a NUMBER lexeme

    def ensures_tree(self, token, result):
        # "literal values": an integer lexeme is an int, any other NUMBER a float; the token text is kept
        v = int(token) if str_is_int(token) else float(token)
        return isinstance(result, HplLiteral) and result.token == token and result.value == v and result.data_type == NUMBER


@contract('hpl.parser.PropertyTransformer.string', props=['C01'])
class string:
    result = 'Expr'
    params = {'self': T, 'token': 'Str'}

    def ensures_tree(self, token, result):
        return isinstance(result, HplLiteral) and result.token == token and result.data_type == DataType.STRING


# ---------------------------------------------------------------- events

from hpl.ast.events import HplSimpleEvent, HplEventDisjunction, EventType  # noqa: E402
from hpl.ast.predicates import HplVacuousTruth  # noqa: E402
from specs.events import alts, distinct_channels  # noqa: E402
import contracts.events_c02  # noqa: E402,F401


def shape_events(it, ct, arg):
    """children of event_disjunction: `arg` simple events (symbolic)"""
    Ev = ct.sorts['Event']
    simple = ct.by_name['HplSimpleEvent']
    kids = [SV(z3.Const(f'e{i}', Ev), TNode('Event'), oid=('param', f'e{i}')) for i in range(int(arg))]
    return {'children': Box('list', items=kids)}, [ct.is_class(simple, k.term) for k in kids]


@contract('hpl.parser.PropertyTransformer.event_disjunction', props=['C01'])
class event_disjunction:
    result = 'Event'
    params = {'self': T, 'children': ('concrete', None)}
    raise_mode = {'HplSanityError': 'only_if'}

    @tag('C02')
    def raises_HplSanityError(self, children):
        return not distinct_channels(tuple(children))

    def ensures_order(self, children, result):
        # "event-disjunction membership and order": the alternatives are exactly the children, in source order
        return alts(result) == tuple(children)


# ---------------------------------------------------------------- files and annotations (C18)

from hpl.ast.specs import HplSpecification  # noqa: E402
from hpl.ast.properties import HplProperty  # noqa: E402


def shape_props(it, ct, arg):
    P = ct.sorts['Property']
    kids = [SV(z3.Const(f'p{i}', P), TNode('Property'), oid=('param', f'p{i}')) for i in range(int(arg))]
    return {'children': Box('list', items=kids)}, []


@contract('hpl.parser.PropertyTransformer.hpl_file', props=['C18'])
class hpl_file:
    result = 'Spec'
    params = {'self': T, 'children': ('concrete', None)}

    def ensures_sequence(self, children, result):
        # "yields exactly the k ASTs ... in order"
        return isinstance(result, HplSpecification) and result.properties == tuple(children)


@contract('hpl.parser.PropertyTransformer.metadata_id', props=['C18'])
class metadata_id:
    params = {'self': T, 'data': 'Str'}

    def ensures_pair(self, data, result):
        return result[0] == 'id' and result[1] == data


@contract('hpl.parser.PropertyTransformer.metadata_title', props=['C18'])
class metadata_title:
    params = {'self': T, 'data': 'Str'}

    def ensures_pair(self, data, result):
        return result[0] == 'title' and result[1] == data


@contract('hpl.parser.PropertyTransformer.metadata_desc', props=['C18'])
class metadata_desc:
    params = {'self': T, 'data': 'Str'}

    def ensures_pair(self, data, result):
        return result[0] == 'description' and result[1] == data


def shape_meta(it, ct, arg):
    """children of `metadata`: (key, value) pairs with the concrete keys listed in arg, symbolic values"""
    keys = [k for k in arg.split(',') if k]
    kids = [(k, SV(z3.String(f'v{i}'), TStr())) for i, k in enumerate(keys)]
    return {'children': Box('list', items=kids)}, []


@contract('hpl.parser.PropertyTransformer.metadata', props=['C18'])
class metadata:
    params = {'self': T, 'children': ('concrete', None)}

    def raises_HplSyntaxError(self, children):
        # "a duplicate ... annotation key ... rejects"
        keys = [k for k, v in children]
        return len(set(keys)) != len(keys)

    def ensures_mapping(self, children, result):
        # each property carries exactly its own annotations
        return all(result[k] == v for k, v in children) and len(result) == len(children)


# ---------------------------------------------------------------- CLI serializer (C19)

@contract('hpl.cli._ast_object_serializer', props=['C19'])
class serializer:
    params = {'_ast': ('concrete', None), '_field': ('concrete', None), 'value': 'Real'}

    def ensures_finite_numbers_unchanged(_ast, _field, value, result):
        # finite floats are emitted as they are (inf / nan -> null is covered by the ground obligations)
        return result == value
