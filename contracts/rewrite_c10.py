"""C10 - refactor_reference isolates the alias-dependent part without changing meaning.

Postconditions in the property's words: (f1 and f2) == f on every valuation (specs/sem.py); f1 contains no reference
to A; when f does not mention A the result is f itself paired with True.  Inputs: well-typed ASTs with hygienic
quantifiers (what the parser produces)."""
from hpl.ast.expressions import (HplExpression, HplUnaryOperator, HplBinaryOperator, HplQuantifier, HplLiteral,
                                 QuantifierType)
from pyvc.contracts import contract, invariant, lemma, spec, aux, tag, unfold, raw_field
from specs.typing import wt, BOOL, NONE
from specs.sem import ev, equiv, conj, forall_env, dom, bind, atom
from specs.tree import mentions, binds, wf_q, refs
import contracts.typing_c03  # noqa: F401
import contracts.queries_c15  # noqa: F401
import contracts.sem_lemmas  # noqa: F401
import contracts.rewrite_c09  # noqa: F401  (empty_test)
from contracts.rewrite_c09 import is_neg, is_conj, is_disj, is_impl, is_all, is_some


@spec(inline=True)
def valid_e(e: 'Expr') -> 'Bool':
    return wt(e) and wf_q(e)


@spec(inline=True)
def is_lit_true(e: 'Expr') -> 'Bool':
    return isinstance(e, HplLiteral) and e.value is True


@spec(inline=True)
def split_ok(f: 'Expr', a: 'Str', f1: 'Expr', f2: 'Expr') -> 'Bool':
    """(f1, f2) is a correct refactoring of f with respect to alias a"""
    return forall_env(lambda rho: (ev(f1, rho) and ev(f2, rho)) == ev(f, rho)) \
        and not mentions(f1, a) \
        and (mentions(f, a) or (f1 == f and is_lit_true(f2)))


@spec(inline=True)
def split_valid(f: 'Expr', f1: 'Expr', f2: 'Expr') -> 'Bool':
    return valid_e(f1) and valid_e(f2) and (f.data_type != BOOL or (f1.data_type == BOOL and f2.data_type == BOOL))


_MAY = {'TypeError': 'only_if', 'HplSanityError': 'only_if'}


@contract('hpl.rewrite._refactor_ref_expr', props=['C10'])
class refactor_ref_expr:
    result = 'Tuple[Expr, Expr]'
    params = {'expr': 'Expr', 'alias': 'Str'}
    raise_mode = _MAY

    @aux
    def requires(expr, alias):
        return valid_e(expr)

    @tag('C14')
    def raises_TypeError(expr, alias):
        return True

    @tag('C14')
    def raises_HplSanityError(expr, alias):
        return True

    def ensures_split(expr, alias, result):
        return split_ok(expr, alias, result[0], result[1])

    @aux
    def ensures_valid(expr, alias, result):
        return split_valid(expr, result[0], result[1])


@contract('hpl.rewrite._split_ref_quantifier', props=['C10'])
class split_ref_quantifier:
    result = 'Tuple[Expr, Expr]'
    params = {'quant': 'Expr', 'alias': 'Str'}
    raise_mode = _MAY

    @aux
    def requires(quant, alias):
        return isinstance(quant, HplQuantifier) and valid_e(quant) and quant.data_type == BOOL and mentions(quant, alias)

    @tag('C14')
    def raises_TypeError(quant, alias):
        return True

    @tag('C14')
    def raises_HplSanityError(quant, alias):
        return True

    def ensures_split(quant, alias, result):
        return split_ok(quant, alias, result[0], result[1])

    @aux
    def ensures_valid(quant, alias, result):
        return split_valid(quant, result[0], result[1])


@contract('hpl.rewrite._split_ref_operator', props=['C10'])
class split_ref_operator:
    result = 'Tuple[Expr, Expr]'
    params = {'op': 'Expr', 'alias': 'Str'}
    raise_mode = _MAY

    @aux
    def requires(op, alias):
        return (isinstance(op, HplUnaryOperator) or isinstance(op, HplBinaryOperator)) and valid_e(op) \
            and op.data_type == BOOL and mentions(op, alias)

    @tag('C14')
    def raises_TypeError(op, alias):
        return True

    @tag('C14')
    def raises_HplSanityError(op, alias):
        return True

    def ensures_split(op, alias, result):
        return split_ok(op, alias, result[0], result[1])

    @aux
    def ensures_valid(op, alias, result):
        return split_valid(op, result[0], result[1])


@contract('hpl.rewrite._split_ref_negation', props=['C10'])
class split_ref_negation:
    result = 'Tuple[Expr, Expr]'
    params = {'neg': 'Expr', 'alias': 'Str'}
    raise_mode = _MAY

    @aux
    def requires(neg, alias):
        return is_neg(neg) and valid_e(neg) and mentions(neg, alias)

    @tag('C14')
    def raises_TypeError(neg, alias):
        return True

    @tag('C14')
    def raises_HplSanityError(neg, alias):
        return True

    def ensures_split(neg, alias, result):
        return split_ok(neg, alias, result[0], result[1])

    @aux
    def ensures_valid(neg, alias, result):
        return split_valid(neg, result[0], result[1])
