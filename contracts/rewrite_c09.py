"""C09 - split_and returns an equivalent list of indivisible conjuncts.

Every function between the public entry point and the constructors is under contract; the postconditions are
the property's own words: `equiv` (same truth value under every valuation, specs/sem.py), the list of forbidden
shapes, boolean type.  Inputs are well-typed ASTs (`wt`, what the parser produces - C03), which is also what
makes the constructor calls inside provably accepted (no TypeError: part of C14)."""
from hpl.ast.expressions import (HplExpression, HplUnaryOperator, HplBinaryOperator, HplQuantifier, HplLiteral,
                                 QuantifierType)
from pyvc.contracts import contract, invariant, lemma, spec, aux, tag, unfold
from specs.typing import wt, BOOL, NONE
from specs.sem import ev, equiv, conj, forall_env, dom, bind, atom
from specs.tree import mentions, binds, wf_q
import contracts.typing_c03  # noqa: F401  (constructor contracts used at the call sites)
import contracts.queries_c15  # noqa: F401  (contains_reference)
import contracts.sem_lemmas  # noqa: F401
from contracts.sem_lemmas import is_empty_test, empty_test_sem
from specs.typing import COMPOUND


@spec(inline=True)
def is_neg(e: 'Expr') -> 'Bool':
    return isinstance(e, HplUnaryOperator) and e.operator.token == 'not'


@spec(inline=True)
def is_conj(e: 'Expr') -> 'Bool':
    return isinstance(e, HplBinaryOperator) and e.operator.token == 'and'


@spec(inline=True)
def is_disj(e: 'Expr') -> 'Bool':
    return isinstance(e, HplBinaryOperator) and e.operator.token == 'or'


@spec(inline=True)
def is_impl(e: 'Expr') -> 'Bool':
    return isinstance(e, HplBinaryOperator) and e.operator.token == 'implies'


@spec(inline=True)
def is_all(e: 'Expr') -> 'Bool':
    return isinstance(e, HplQuantifier) and e.quantifier is QuantifierType.ALL


@spec(inline=True)
def is_some(e: 'Expr') -> 'Bool':
    return isinstance(e, HplQuantifier) and e.quantifier is QuantifierType.SOME


@spec(inline=True)
def indivisible(e: 'Expr') -> 'Bool':
    """the statement's list: not a conjunction, a negated disjunction, a negated implication, a double negation,
    a negated existential quantifier or a universal quantifier over a conjunction"""
    return not is_conj(e) \
        and not (is_neg(e) and (is_disj(e.operand) or is_impl(e.operand) or is_neg(e.operand) or is_some(e.operand))) \
        and not (is_all(e) and is_conj(e.condition))


@spec(inline=True)
def valid_in(e: 'Expr') -> 'Bool':
    """a well-typed boolean expression with hygienic quantifiers (what the parser produces)"""
    return wt(e) and e.data_type == BOOL and wf_q(e)


# ------------------------------------------------------------------------------------------------ helpers

@contract('hpl.rewrite.empty_test', props=['C09'])
class empty_test_c:
    """`len(expr) = 0`: true exactly when the domain has no members (A-SEM-3)"""
    result = 'Expr'
    params = {'expr': 'Expr'}

    @aux
    def requires(expr):
        return wt(expr)

    @tag('C14')
    def raises_TypeError(expr):
        return (expr.data_type & COMPOUND) == NONE

    def hint_post(expr, result):
        empty_test_sem(result, expr)

    def ensures_shape(expr, result):
        return is_empty_test(result, expr)

    def ensures_meaning(expr, result):
        return forall_env(lambda rho: ev(result, rho) == (len(dom(expr, rho)) == 0))

    @aux
    def ensures_valid(expr, result):
        return wt(result) and result.data_type == BOOL and (wf_q(result) == wf_q(expr))



@contract('hpl.rewrite._and_presplit_transform', props=['C09'])
class and_presplit_transform:
    result = 'Expr'
    params = {'phi': 'Expr'}

    # Internal errors of the quantifier constructor (its validators re-check typing of the bound variable and
    # hygiene on the rebuilt body) are not excluded by this contract: totality is C14 (bounded there).
    raise_mode = {'TypeError': 'only_if', 'HplSanityError': 'only_if'}

    @tag('C14')
    def raises_TypeError(phi):
        return True

    @tag('C14')
    def raises_HplSanityError(phi):
        return True

    @aux
    def requires(phi):
        return valid_in(phi)

    def ensures_equivalent(phi, result):
        return equiv(result, phi)

    def ensures_shape(phi, result):
        return is_conj(result) or indivisible(result)

    @aux
    def ensures_conj_kept(phi, result):
        return (not is_conj(phi)) or is_conj(result)

    @aux
    def ensures_valid(phi, result):
        return valid_in(result)


@contract('hpl.rewrite._split_and_not', props=['C09'])
class split_and_not:
    result = 'Expr'
    params = {'neg': 'Expr'}

    # Internal errors of the quantifier constructor (its validators re-check typing of the bound variable and
    # hygiene on the rebuilt body) are not excluded by this contract: totality is C14 (bounded there).
    raise_mode = {'TypeError': 'only_if', 'HplSanityError': 'only_if'}

    @tag('C14')
    def raises_TypeError(neg):
        return True

    @tag('C14')
    def raises_HplSanityError(neg):
        return True

    @aux
    def requires(neg):
        return is_neg(neg) and valid_in(neg)

    def ensures_equivalent(neg, result):
        return equiv(result, neg)

    def ensures_shape(neg, result):
        return is_conj(result) or indivisible(result)

    @aux
    def ensures_valid(neg, result):
        return valid_in(result)


@contract('hpl.rewrite._split_and_quantifier', props=['C09'])
class split_and_quantifier:
    result = 'Expr'
    params = {'quant': 'Expr'}

    # Internal errors of the quantifier constructor (its validators re-check typing of the bound variable and
    # hygiene on the rebuilt body) are not excluded by this contract: totality is C14 (bounded there).
    raise_mode = {'TypeError': 'only_if', 'HplSanityError': 'only_if'}

    @tag('C14')
    def raises_TypeError(quant):
        return True

    @tag('C14')
    def raises_HplSanityError(quant):
        return True

    @aux
    def requires(quant):
        return isinstance(quant, HplQuantifier) and valid_in(quant)

    def ensures_equivalent(quant, result):
        return equiv(result, quant)

    def ensures_shape(quant, result):
        return is_conj(result) or indivisible(result)

    @aux
    def ensures_valid(quant, result):
        return valid_in(result)
