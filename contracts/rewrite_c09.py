"""C09 - split_and returns an equivalent list of indivisible conjuncts.

Every function between the public entry point and the constructors is under contract; the postconditions are
the property's own words: `equiv` (same truth value under every valuation, specs/sem.py), the list of forbidden
shapes, boolean type.  Inputs are well-typed ASTs (`wt`, what the parser produces - C03), which is also what
makes the constructor calls inside provably accepted (no TypeError: part of C14)."""
from hpl.ast.expressions import (HplExpression, HplUnaryOperator, HplBinaryOperator, HplQuantifier, HplLiteral,
                                 QuantifierType)
from pyvc.contracts import contract, invariant, lemma, spec, aux, tag, unfold, raw_field
from specs.typing import wt, BOOL, NONE
from specs.sem import ev, equiv, conj, forall_env, dom, bind, atom
from specs.tree import mentions, binds, wf_q
import contracts.typing_c03  # noqa: F401  (constructor contracts used at the call sites)
import contracts.queries_c15  # noqa: F401  (contains_reference)
import contracts.sem_lemmas  # noqa: F401
from contracts.sem_lemmas import is_empty_test, empty_test_sem, conj_last
from specs.typing import COMPOUND


@spec(inline=True)
def is_neg(e: 'Expr') -> 'Bool':
    return isinstance(e, HplUnaryOperator) and e.operator.token == 'not'


@spec(inline=True)
def is_conj(e: 'Expr') -> 'Bool':
    return isinstance(e, HplBinaryOperator) and e.operator.token == 'and'


@spec(inline=True)
def is_disj(e: 'Expr') -> 'Bool':
    return isinstance(e, HplBinaryOperator) and e.operator.token == 'or'


@spec(inline=True)
def is_impl(e: 'Expr') -> 'Bool':
    return isinstance(e, HplBinaryOperator) and e.operator.token == 'implies'


@spec(inline=True)
def is_all(e: 'Expr') -> 'Bool':
    return isinstance(e, HplQuantifier) and e.quantifier is QuantifierType.ALL


@spec(inline=True)
def is_some(e: 'Expr') -> 'Bool':
    return isinstance(e, HplQuantifier) and e.quantifier is QuantifierType.SOME


@spec(inline=True)
def indivisible(e: 'Expr') -> 'Bool':
    """the statement's list: not a conjunction, a negated disjunction, a negated implication, a double negation,
    a negated existential quantifier or a universal quantifier over a conjunction"""
    return not is_conj(e) \
        and not (is_neg(e) and (is_disj(e.operand) or is_impl(e.operand) or is_neg(e.operand) or is_some(e.operand))) \
        and not (is_all(e) and is_conj(e.condition))


@spec(inline=True)
def valid_in(e: 'Expr') -> 'Bool':
    """a well-typed boolean expression with hygienic quantifiers (what the parser produces)"""
    return wt(e) and e.data_type == BOOL and wf_q(e)


# ------------------------------------------------------------------------------------------------ helpers

@contract('hpl.rewrite.empty_test', props=['C09'])
class empty_test_c:
    """`len(expr) = 0`: true exactly when the domain has no members (A-SEM-3)"""
    result = 'Expr'
    params = {'expr': 'Expr'}

    @aux
    def requires(expr):
        return wt(expr)

    @tag('C14')
    def raises_TypeError(expr):
        return (expr.data_type & COMPOUND) == NONE

    def hint_post(expr, result):
        empty_test_sem(result, expr)

    def ensures_shape(expr, result):
        return is_empty_test(result, expr)

    def ensures_meaning(expr, result):
        return forall_env(lambda rho: ev(result, rho) == (len(dom(expr, rho)) == 0))

    @aux
    def ensures_valid(expr, result):
        return wt(result) and result.data_type == BOOL and (wf_q(result) == wf_q(expr))



@contract('hpl.rewrite._and_presplit_transform', props=['C09'])
class and_presplit_transform:
    result = 'Expr'
    params = {'phi': 'Expr'}

    # Internal errors of the quantifier constructor (its validators re-check typing of the bound variable and
    # hygiene on the rebuilt body) are not excluded by this contract: totality is C14 (bounded there).
    raise_mode = {'TypeError': 'only_if', 'HplSanityError': 'only_if'}

    @tag('C14')
    def raises_TypeError(phi):
        return True

    @tag('C14')
    def raises_HplSanityError(phi):
        return True

    @aux
    def requires(phi):
        return valid_in(phi)

    def ensures_equivalent(phi, result):
        return equiv(result, phi)

    def ensures_shape(phi, result):
        return is_conj(result) or indivisible(result)

    @aux
    def ensures_conj_kept(phi, result):
        return (not is_conj(phi)) or is_conj(result)

    @aux
    def ensures_valid(phi, result):
        return valid_in(result)


@contract('hpl.rewrite._split_and_not', props=['C09'])
class split_and_not:
    result = 'Expr'
    params = {'neg': 'Expr'}

    # Internal errors of the quantifier constructor (its validators re-check typing of the bound variable and
    # hygiene on the rebuilt body) are not excluded by this contract: totality is C14 (bounded there).
    raise_mode = {'TypeError': 'only_if', 'HplSanityError': 'only_if'}

    @tag('C14')
    def raises_TypeError(neg):
        return True

    @tag('C14')
    def raises_HplSanityError(neg):
        return True

    @aux
    def requires(neg):
        return is_neg(neg) and valid_in(neg)

    def ensures_equivalent(neg, result):
        return equiv(result, neg)

    def ensures_shape(neg, result):
        return is_conj(result) or indivisible(result)

    @aux
    def ensures_valid(neg, result):
        return valid_in(result)


@contract('hpl.rewrite._split_and_quantifier', props=['C09'])
class split_and_quantifier:
    result = 'Expr'
    params = {'quant': 'Expr'}

    # Internal errors of the quantifier constructor (its validators re-check typing of the bound variable and
    # hygiene on the rebuilt body) are not excluded by this contract: totality is C14 (bounded there).
    raise_mode = {'TypeError': 'only_if', 'HplSanityError': 'only_if'}

    @tag('C14')
    def raises_TypeError(quant):
        return True

    @tag('C14')
    def raises_HplSanityError(quant):
        return True

    @aux
    def requires(quant):
        return isinstance(quant, HplQuantifier) and valid_in(quant)

    def ensures_equivalent(quant, result):
        return equiv(result, quant)

    def ensures_shape(quant, result):
        return is_conj(result) or indivisible(result)

    @aux
    def ensures_valid(quant, result):
        return valid_in(result)


# ------------------------------------------------------------------------------------------------ list facts

def _patvo(e):
    return (wt(e), raw_field(e, 'HplBinaryOperator', 'operand1'))


@lemma(auto=('wt',), patterns=_patvo)
def valid_conj_operands(e: 'Expr') -> 'Bool':
    """both sides of a valid conjunction are valid (one unfolding of wt / wf_q, done once here)"""
    return (not (is_conj(e) and valid_in(e))) or (valid_in(e.operand1) and valid_in(e.operand2))


@spec(inline=True)
def ok_out(c: 'Expr') -> 'Bool':
    return indivisible(c) and c.data_type == BOOL


def _patv(s, c):
    return all(valid_in(x) for x in s + (c,))


@lemma(induction_on='s', auto=('wt',), patterns=_patv)
def valid_snoc(s: 'Seq[Expr]', c: 'Expr') -> 'Bool':
    return all(valid_in(x) for x in s + (c,)) == (all(valid_in(x) for x in s) and valid_in(c))


def _patva(s, t):
    return all(valid_in(x) for x in s + t)


@lemma(induction_on='s', auto=('wt',), patterns=_patva)
def valid_append(s: 'Seq[Expr]', t: 'Seq[Expr]') -> 'Bool':
    return all(valid_in(x) for x in s + t) == (all(valid_in(x) for x in s) and all(valid_in(x) for x in t))


def _patvu(u):
    return all(valid_in(x) for x in u)


@lemma(auto=('wt',), patterns=_patvu)
def valid_unit(u: 'Seq[Expr]') -> 'Bool':
    return len(u) != 1 or all(valid_in(x) for x in u) == valid_in(u[0])


def _valid_last_hint(s):
    if len(s) > 0:
        valid_snoc(s[:-1], s[-1])


@lemma(hint=_valid_last_hint)
def valid_last(s: 'Seq[Expr]') -> 'Bool':
    return len(s) == 0 or (all(valid_in(x) for x in s) == (all(valid_in(x) for x in s[:-1]) and valid_in(s[-1])))


def _pato(s, c):
    return all(ok_out(x) for x in s + (c,))


@lemma(induction_on='s', auto=('wt',), patterns=_pato)
def out_snoc(s: 'Seq[Expr]', c: 'Expr') -> 'Bool':
    return all(ok_out(x) for x in s + (c,)) == (all(ok_out(x) for x in s) and ok_out(c))


def _patoa(s, t):
    return all(ok_out(x) for x in s + t)


@lemma(induction_on='s', auto=('wt',), patterns=_patoa)
def out_append(s: 'Seq[Expr]', t: 'Seq[Expr]') -> 'Bool':
    return all(ok_out(x) for x in s + t) == (all(ok_out(x) for x in s) and all(ok_out(x) for x in t))


def _patou(u):
    return all(ok_out(x) for x in u)


@lemma(auto=('wt',), patterns=_patou)
def out_unit(u: 'Seq[Expr]') -> 'Bool':
    return len(u) != 1 or all(ok_out(x) for x in u) == ok_out(u[0])


# ------------------------------------------------------------------------------------------------ the work list

@contract('hpl.rewrite._split_and_expr', props=['C09'])
class split_and_expr:
    result = 'Seq[Expr]'
    params = {'phi': 'Expr'}
    raise_mode = {'ValueError': 'only_if', 'TypeError': 'only_if', 'HplSanityError': 'only_if'}

    @aux
    def requires(phi):
        return valid_in(phi)

    def raises_ValueError(phi):
        # "it raises ValueError only when a literally false conjunct makes the input unsatisfiable"
        return forall_env(lambda rho: not ev(phi, rho))

    @tag('C14')
    def raises_TypeError(phi):
        return True

    @tag('C14')
    def raises_HplSanityError(phi):
        return True

    def ensures_equivalent(phi, result):
        # "the conjunction of the expressions returned by split_and is equivalent to the input on every valuation"
        return forall_env(lambda rho: conj(result, rho) == ev(phi, rho))

    def ensures_indivisible_boolean(phi, result):
        # "every returned expression is boolean and none of them is a conjunction, a negated disjunction, ..."
        return all(ok_out(c) for c in result)


def _split_inv_hint(stack, rho):
    # facts about the work list at the start of an iteration (before the pop); rho: any valuation
    conj_last(stack, rho)
    valid_last(stack)


@invariant('hpl.rewrite._split_and_expr', loop=0, types={'conditions': 'Seq[Expr]', 'stack': 'Seq[Expr]'},
           pre_hint=_split_inv_hint)
def _split_and_expr_inv(phi, conditions, stack):
    return forall_env(lambda rho: (conj(conditions, rho) and conj(stack, rho)) == ev(phi, rho)) \
        and all(ok_out(c) for c in conditions) and all(valid_in(s) for s in stack)


# ------------------------------------------------------------------------------------------------ public entry point

@contract('hpl.rewrite.split_and', props=['C09'])
class split_and_c:
    """the expression form of the public function (a predicate argument is unwrapped to its condition first: that
    one-line dispatch is exercised by the bounded tier)"""
    result = 'Seq[Expr]'
    params = {'predicate_or_expression': 'Expr'}
    raise_mode = {'ValueError': 'only_if', 'TypeError': 'only_if', 'HplSanityError': 'only_if'}

    @aux
    def requires(predicate_or_expression):
        return valid_in(predicate_or_expression)

    def raises_ValueError(predicate_or_expression):
        # "it raises ValueError only when a literally false conjunct makes the input unsatisfiable"
        return forall_env(lambda rho: not ev(predicate_or_expression, rho))

    @tag('C14')
    def raises_TypeError(predicate_or_expression):
        return True

    @tag('C14')
    def raises_HplSanityError(predicate_or_expression):
        return True

    def ensures_equivalent(predicate_or_expression, result):
        return forall_env(lambda rho: conj(result, rho) == ev(predicate_or_expression, rho))

    def ensures_indivisible_boolean(predicate_or_expression, result):
        return all(ok_out(c) for c in result)
