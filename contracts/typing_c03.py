"""C03 / C04 / C05 / C16 - typing discipline of the expression constructors and cast().

Clause provenance is per clause: C03 = result is well-typed, C05 = a definite clash is rejected with a
TypeError, C04 = nothing else is rejected (the raise condition is exact), C16 = frame obligations (generated
automatically for every in-place narrowing of an object the function did not create)."""
from hpl.ast.expressions import (HplExpression, HplUnaryOperator, HplBinaryOperator, HplRange, HplLiteral,
                                 HplFieldAccess, HplArrayAccess, HplVarReference, HplThisMessage)
from hpl.types import DataType
from pyvc.contracts import contract, invariant, lemma, spec, aux, tag, unfold
from specs.typing import (with_dt, wt, within, builtin_unary, builtin_binary, literal_type, NONE, BOOL, NUMBER, STRING, ARRAY,
                          MESSAGE, RANGE, SET, ITEM, ACCESS, PRIMITIVE)


# ---------------------------------------------------------------- cast: copy-on-narrow

@contract('hpl.ast.expressions.HplExpression.cast', virtual=True, props=['C16'])
class Expr_cast:
    result = 'Expr'

    @aux
    def requires(self, t):
        return wt(self)

    @tag('C05')
    def raises_TypeError(self, t):
        # narrowing to a disjoint type set is a definite type error
        return (self.data_type & t) == NONE

    def result_is_self(self, t):
        # nothing to narrow: the very same object
        return (self.data_type & t) == self.data_type

    @tag('C03')
    def returns(self, t):
        # a copy that differs only in the stored type set (the original is not touched: frame obligations)
        return with_dt(self, self.data_type & t)

    @tag('C03')
    def ensures_wt(self, t, result):
        return wt(result)


def is_operator_node(e):
    # operator / call / quantifier / literal / this / set / range nodes carry one fixed type:
    # re-construction restores it
    return not isinstance(e, (HplVarReference, HplFieldAccess, HplArrayAccess))


# ---------------------------------------------------------------- constructors
# data_type is keyword-only and optional: None stands for "not given" (attrs' NOTHING sentinel).

from attr import NOTHING  # noqa: E402
from specs.typing import with_dt  # noqa: E402

ANY = DataType.ANY


def given_dt_clash(data_type, default):
    """the explicitly given type set is disjoint from what the node kind allows"""
    return data_type is not None and data_type is not NOTHING and (data_type & default) == NONE


@contract('hpl.ast.expressions.HplUnaryOperator.__init__', props=['C03'])
class Unary_init:
    result = 'Expr'
    params = {'operator': 'OpDef1', 'operand': 'Expr', 'data_type': 'Opt[DT]'}

    @aux
    def requires(operator, operand, data_type):
        return builtin_unary(operator) and wt(operand)

    @tag('C05')
    def raises_TypeError(operator, operand, data_type):
        # "an operator ... applied to ... an incompatible type ... is rejected with a type error" - and only then (C04)
        return (operand.data_type & operator.parameter) == NONE or given_dt_clash(data_type, ANY)

    @tag('C16')
    def narrows_operand(operator, operand, data_type):
        # the constructor narrows the very operand object it is given (no copy): callers must pass a narrowed one
        return operand.data_type & operator.parameter

    def ensures_value(operator, operand, data_type, result):
        return isinstance(result, HplUnaryOperator) and result.data_type == operator.result \
            and result.operator == operator \
            and result.operand == with_dt(operand, operand.data_type & operator.parameter)

    def ensures_wt(operator, operand, data_type, result):
        return wt(result)


@contract('hpl.ast.expressions.HplBinaryOperator.__init__', props=['C03'])
class Binary_init:
    result = 'Expr'
    params = {'operator': 'OpDef2', 'operand1': 'Expr', 'operand2': 'Expr', 'data_type': 'Opt[DT]'}

    @aux
    def requires(operator, operand1, operand2, data_type):
        return builtin_binary(operator) and wt(operand1) and wt(operand2)

    @tag('C05')
    def raises_TypeError(operator, operand1, operand2, data_type):
        d1 = operand1.data_type & operator.parameter1
        d2 = operand2.data_type & operator.parameter2
        similar = (operator.parameter1 & operator.parameter2) != NONE
        return d1 == NONE or d2 == NONE or (similar and (d1 & d2) == NONE) or given_dt_clash(data_type, ANY)

    @tag('C16')
    def narrows_operand1(operator, operand1, operand2, data_type):
        return operand1.data_type & operator.parameter1

    @tag('C16')
    def narrows_operand2(operator, operand1, operand2, data_type):
        return operand2.data_type & operator.parameter2

    def ensures_value(operator, operand1, operand2, data_type, result):
        d1 = operand1.data_type & operator.parameter1
        d2 = operand2.data_type & operator.parameter2
        similar = (operator.parameter1 & operator.parameter2) != NONE
        # "both sides of =/!= carry the same type set"
        e1 = with_dt(operand1, d1 & d2) if similar else with_dt(operand1, d1)
        e2 = with_dt(operand2, d1 & d2) if similar else with_dt(operand2, d2)
        return isinstance(result, HplBinaryOperator) and result.data_type == operator.result \
            and result.operator == operator and result.operand1 == e1 and result.operand2 == e2

    def ensures_wt(operator, operand1, operand2, data_type, result):
        return wt(result)


@contract('hpl.ast.expressions.HplRange.__init__', props=['C03'])
class Range_init:
    result = 'Expr'
    params = {'min_value': 'Expr', 'max_value': 'Expr', 'exclude_min': 'Bool', 'exclude_max': 'Bool',
              'data_type': 'Opt[DT]'}

    @aux
    def requires(min_value, max_value, exclude_min, exclude_max, data_type):
        return wt(min_value) and wt(max_value)

    @tag('C05')
    def raises_TypeError(min_value, max_value, exclude_min, exclude_max, data_type):
        # "a range bound ... of an incompatible type"
        return (min_value.data_type & NUMBER) == NONE or (max_value.data_type & NUMBER) == NONE \
            or given_dt_clash(data_type, RANGE)

    def ensures_value(min_value, max_value, exclude_min, exclude_max, data_type, result):
        d = RANGE if (data_type is None or data_type is NOTHING) else data_type
        return isinstance(result, HplRange) and result.data_type == d \
            and result.min_value == with_dt(min_value, min_value.data_type & NUMBER) \
            and result.max_value == with_dt(max_value, max_value.data_type & NUMBER) \
            and result.exclude_min == exclude_min and result.exclude_max == exclude_max

    def ensures_wt(min_value, max_value, exclude_min, exclude_max, data_type, result):
        # (an explicitly given, wider type set is stored as given: API-only corner, the parser never passes one)
        return (data_type is not None and data_type is not NOTHING and not within(data_type, RANGE)) or wt(result)


@contract('hpl.ast.expressions.HplFieldAccess.__init__', props=['C03'])
class Field_init:
    result = 'Expr'
    params = {'message': 'Expr', 'field': 'Str', 'data_type': 'Opt[DT]'}

    @aux
    def requires(message, field, data_type):
        return wt(message)

    @tag('C05')
    def raises_TypeError(message, field, data_type):
        # "a field access ... applied to ... an incompatible type"
        return (message.data_type & MESSAGE) == NONE or given_dt_clash(data_type, ACCESS)

    @tag('C16')
    def narrows_message(message, field, data_type):
        return message.data_type & MESSAGE

    def ensures_value(message, field, data_type, result):
        d = ACCESS if (data_type is None or data_type is NOTHING) else data_type
        return isinstance(result, HplFieldAccess) and result.data_type == d and result.field == field \
            and result.message == with_dt(message, message.data_type & MESSAGE)

    def ensures_wt(message, field, data_type, result):
        # the stored type may be any non-empty set the caller asks for within what an accessor allows
        return (data_type is not None and data_type is not NOTHING and not within(data_type, ACCESS)) or wt(result)


@contract('hpl.ast.expressions.HplArrayAccess.__init__', props=['C03'])
class Array_init:
    result = 'Expr'
    params = {'array': 'Expr', 'index': 'Expr', 'data_type': 'Opt[DT]'}

    @aux
    def requires(array, index, data_type):
        return wt(array) and wt(index)

    @tag('C05')
    def raises_TypeError(array, index, data_type):
        # "an index ... applied to ... an incompatible type"
        return (array.data_type & ARRAY) == NONE or (index.data_type & NUMBER) == NONE \
            or given_dt_clash(data_type, ACCESS)

    @tag('C16')
    def narrows_array(array, index, data_type):
        return array.data_type & ARRAY

    @tag('C16')
    def narrows_index(array, index, data_type):
        return index.data_type & NUMBER

    def ensures_value(array, index, data_type, result):
        d = ACCESS if (data_type is None or data_type is NOTHING) else data_type
        return isinstance(result, HplArrayAccess) and result.data_type == d \
            and result.array == with_dt(array, array.data_type & ARRAY) \
            and result.index == with_dt(index, index.data_type & NUMBER)

    def ensures_wt(array, index, data_type, result):
        return (data_type is not None and data_type is not NOTHING and not within(data_type, ACCESS)) or wt(result)


@contract('hpl.ast.expressions.HplLiteral.__init__', props=['C03'])
class Literal_init:
    result = 'Expr'
    params = {'token': 'Str', 'value': 'Val', 'data_type': 'Opt[DT]'}

    @tag('C05')
    def raises_TypeError(token, value, data_type):
        return given_dt_clash(data_type, PRIMITIVE)

    def ensures_value(token, value, data_type, result):
        # "literal values": the stored type is decided by the payload alone
        return isinstance(result, HplLiteral) and result.data_type == literal_type(value) \
            and result.token == token and result.value == value

    def ensures_wt(token, value, data_type, result):
        return wt(result)


@contract('hpl.ast.expressions.HplVarReference.__init__', props=['C03'])
class Var_init:
    result = 'Expr'
    params = {'token': 'Str', 'data_type': 'Opt[DT]'}

    @tag('C05')
    def raises_TypeError(token, data_type):
        return given_dt_clash(data_type, ITEM)

    def ensures_value(token, data_type, result):
        d = ITEM if (data_type is None or data_type is NOTHING) else data_type
        return isinstance(result, HplVarReference) and result.data_type == d and result.token == token

    def ensures_wt(token, data_type, result):
        return (data_type is not None and data_type is not NOTHING and not within(data_type, ITEM)) or wt(result)


@contract('hpl.ast.expressions.HplThisMessage.__init__', props=['C03'])
class This_init:
    result = 'Expr'
    params = {'data_type': 'Opt[DT]'}

    @tag('C05')
    def raises_TypeError(data_type):
        return given_dt_clash(data_type, MESSAGE)

    def ensures_value(data_type, result):
        d = MESSAGE if (data_type is None or data_type is NOTHING) else data_type
        return isinstance(result, HplThisMessage) and result.data_type == d

    def ensures_wt(data_type, result):
        return (data_type is not None and data_type is not NOTHING and not within(data_type, MESSAGE)) or wt(result)


# ---- constructors whose bodies are not verified yet: their contracts are ASSUMED at call sites (listed as
# trusted in the evidence) and evaluated natively on the corpus by the bounded tier.

from hpl.ast.expressions import HplSet, HplFunctionCall, HplQuantifier  # noqa: E402
from hpl.errors import HplSanityError  # noqa: E402
from specs.typing import accepts_any, uses_ok, elem_type, builtin_call, FUNCTION_DEFS, COMPOUND  # noqa: E402
from specs.tree import mentions, binds  # noqa: E402
from specs.lattice import fold_or  # noqa: E402


@contract('hpl.ast.expressions.HplSet.__init__', props=['C03'])
class Set_init:
    result = 'Expr'
    params = {'values': 'Seq[Expr]', 'data_type': 'Opt[DT]'}

    @aux
    def requires(values, data_type):
        return all(wt(v) for v in values)

    @tag('C05')
    def raises_TypeError(values, data_type):
        # "a set element ... of an incompatible type"
        return any((v.data_type & PRIMITIVE) == NONE for v in values) or given_dt_clash(data_type, SET)

    def ensures_value(values, data_type, result):
        d = SET if (data_type is None or data_type is NOTHING) else data_type
        return isinstance(result, HplSet) and result.data_type == d \
            and result.values == tuple(with_dt(v, v.data_type & PRIMITIVE) for v in values)

    def ensures_wt(values, data_type, result):
        return (data_type is not None and data_type is not NOTHING and not within(data_type, SET)) or wt(result)


@contract('hpl.ast.expressions.HplFunctionCall.__init__', props=['C03'])
class Call_init:
    result = 'Expr'
    params = {'function': 'FunDef', 'arguments': 'Seq[Expr]', 'data_type': 'Opt[DT]'}

    @aux
    def requires(function, arguments, data_type):
        return any(function == fd for fd in FUNCTION_DEFS) and all(wt(a) for a in arguments)

    @tag('C05')
    def raises_TypeError(function, arguments, data_type):
        # "a function ... applied to ... an incompatible type": no overload accepts the argument types
        return not accepts_any(function.overloads, tuple(a.data_type for a in arguments)) \
            or given_dt_clash(data_type, ANY)

    def ensures_value(function, arguments, data_type, result):
        return isinstance(result, HplFunctionCall) and result.function == function \
            and result.arguments == arguments and builtin_call(function, result.data_type)

    def ensures_wt(function, arguments, data_type, result):
        return wt(result)


@contract('hpl.ast.expressions.HplQuantifier.__init__', props=['C03'])
class Quantifier_init:
    result = 'Expr'
    params = {'quantifier': 'Enum[QuantifierType]', 'variable': 'Str', 'domain': 'Expr', 'condition': 'Expr',
              'data_type': 'Opt[DT]'}
    raise_mode = {'TypeError': 'only_if', 'HplSanityError': 'only_if'}

    @aux
    def requires(quantifier, variable, domain, condition, data_type):
        return wt(domain) and wt(condition)

    @tag('C05')
    def raises_TypeError(quantifier, variable, domain, condition, data_type):
        return type_clash_q(variable, domain, condition, data_type)

    @tag('C02')
    def raises_HplSanityError(quantifier, variable, domain, condition, data_type):
        # (iv) "every quantifier uses its variable in its body, does not use it in its own domain, and is not
        #  nested inside a quantifier binding the same name"
        return hygiene_broken(variable, domain, condition)

    def ensures_accepted(quantifier, variable, domain, condition, data_type, result):
        return not type_clash_q(variable, domain, condition, data_type) \
            and not hygiene_broken(variable, domain, condition)

    def ensures_value(quantifier, variable, domain, condition, data_type, result):
        d = BOOL if (data_type is None or data_type is NOTHING) else data_type
        return isinstance(result, HplQuantifier) and result.data_type == d and result.quantifier == quantifier \
            and result.variable == variable and result.domain == with_dt(domain, domain.data_type & COMPOUND) \
            and result.condition == with_dt(condition, condition.data_type & BOOL)

    def ensures_wt(quantifier, variable, domain, condition, data_type, result):
        # an explicitly given type set wider than BOOL is stored as given (API-only corner, see the other constructors)
        return (data_type is not None and data_type is not NOTHING and not within(data_type, BOOL)) or wt(result)


def type_clash_q(variable, domain, condition, data_type):
    # the uses of the bound variable are checked on the condition as stored, i.e. narrowed to BOOL at its root
    # (matters only when the condition is the bound variable itself)
    return (domain.data_type & COMPOUND) == NONE or (condition.data_type & BOOL) == NONE \
        or not uses_ok(with_dt(condition, condition.data_type & BOOL), variable, elem_type(domain)) \
        or given_dt_clash(data_type, BOOL)


def hygiene_broken(variable, domain, condition):
    return mentions(domain, variable) or binds(condition, variable) or not mentions(condition, variable)
