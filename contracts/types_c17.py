"""C17 (token part) - type tokens: index membership, constructor validation."""
from hpl.types import DataType, BASE_TYPES
from pyvc.contracts import contract, invariant, lemma, spec, aux, tag


@contract('hpl.types.ArrayType.contains_index', props=['C17'])
class Array_contains_index:
    @aux
    def requires(self, index):
        # class invariant established by the constructor (validator ge(-1))
        return self.length >= -1

    def returns(self, index):
        # variable-length arrays (length -1) contain every index; fixed ones the indices below their length
        return self.length == -1 or index < self.length


@contract('hpl.types.ArrayType.is_fixed_length', props=['C17'])
class Array_is_fixed_length:
    @aux
    def requires(self):
        return self.length >= -1

    def returns(self):
        return self.length != -1


@contract('hpl.types.ArrayType.__init__', props=['C17'])
class Array_init:
    result = 'TypeTok'

    def raises_ValueError(name, subtype, length):
        # "token constructors reject ill-formed declarations (... array length below -1 ...)"
        return length < -1

    def ensures(name, subtype, length, result):
        return result.length == length and result.subtype == subtype and result.type == DataType.ARRAY


@contract('hpl.types.TypeToken.__init__', props=['C17'])
class TypeToken_init:
    result = 'TypeTok'
    params = {'type': 'DT'}

    @aux
    def raises_ValueError(name, type):
        return type not in BASE_TYPES

    def ensures(name, type, result):
        return result.type == type and result.name == name


@contract('hpl.types.RangedType.__init__', props=['C17'])
class Ranged_init:
    result = 'TypeTok'
    params = {'type': 'DT', 'min_value': 'Val', 'max_value': 'Val'}

    @aux
    def requires(name, type, min_value, max_value):
        # bounds are numbers (ints or floats); strings are outside the declared use
        return isinstance(min_value, (int, float)) and isinstance(max_value, (int, float))

    def raises_ValueError(name, type, min_value, max_value):
        # "token constructors reject ill-formed declarations (maximum below minimum ...)"
        return (type not in BASE_TYPES) or max_value < min_value

    def ensures(name, type, min_value, max_value, result):
        return result.min_value == min_value and result.max_value == max_value and result.type == type


@contract('hpl.types.EnumeratedType.__init__', props=['C17'])
class Enumerated_init:
    result = 'TypeTok'
    params = {'type': 'DT', 'values': 'Seq[Val]'}

    @aux
    def raises_ValueError(name, type, values):
        return type not in BASE_TYPES

    def raises_TypeError(name, type, values):
        # "... enumerated values of the wrong kind" (Python's bool is an int, followed as in Python)
        if type is DataType.BOOL:
            return any(not isinstance(v, bool) for v in values)
        if type is DataType.NUMBER:
            return any(not isinstance(v, (int, float, complex)) for v in values)
        if type is DataType.STRING:
            return any(not isinstance(v, str) for v in values)
        return False

    def ensures(name, type, values, result):
        return result.values == values and result.type == type
