"""C11 - canonical_form is an exact, order-stable decomposition.

The disjunction *shapes* of the input are fixed per task (widths 1..3 in each event position), the
simple events themselves (topics, predicates, aliases), time bounds and kinds are symbolic."""
import z3

from hpl.ast.properties import PatternType, ScopeType
from hpl.errors import HplSanityError
from pyvc.contracts import contract, invariant, lemma, spec, aux, tag
from pyvc.classtable import TNode, TOpt, TReal, TEnum
from pyvc.values import SV
import contracts.sanity_c02  # noqa: F401  (constructor contracts used at the call sites)
import contracts.events_c02  # noqa: F401
from specs.canon import canon, flat
from specs.sanity import sane, wf_scope, wf_pattern


@contract('hpl.rewrite.canonical_form', props=['C11'])
class Canonical_form:
    params = {'property': 'Property'}

    @aux
    def requires(property):
        # the input is a property the library itself accepted (constructed objects: validators ran)
        return wf_scope(property.scope) and wf_pattern(property.pattern) and sane(property.scope, property.pattern)

    raise_mode = {'HplSanityError': 'only_if'}

    @aux
    def raises_HplSanityError(property):
        # re-construction of an output may be rejected by the sanity check (finding F13: a split disjunction
        # that binds an alias in only some alternatives).  Which inputs are affected is decided by the
        # bounded stand-in; here the exception is merely permitted, every *returned* result is checked.
        return True

    def ensures_exact_decomposition(property, result):
        exp = canon(property)
        if len(exp) == 1 and exp[0] is property:
            # "returns the property itself when neither its activator nor its split event is a disjunction"
            return len(result) == 1 and result[0] is property
        # "exactly one valid property per pair, activator-major in source order, each differing from the
        #  input only in those two positions"
        return len(result) == len(exp) and all(r.scope == s and r.pattern == p for r, (s, p) in zip(result, exp))


def _event(it, ct, name, width):
    """an event of the given disjunction width (right-nested as the parser builds it) with symbolic simple leaves"""
    Ev = ct.sorts['Event']
    simple = ct.by_name['HplSimpleEvent']
    disj = ct.by_name['HplEventDisjunction']
    leaves = [z3.Const(f'{name}{i}', Ev) for i in range(width)]
    facts = [ct.is_class(simple, l) for l in leaves]
    t = leaves[-1]
    for l in reversed(leaves[:-1]):
        t = ct.ctor(disj, {'event1': l, 'event2': t})
    return t, facts


def shape(it, ct, arg):
    """arg: scope kind | pattern kind | activator width | terminator width | behaviour width | trigger width
    (width 0 = absent)"""
    sk, pk, wa, wt, wb, wg = arg.split(',')
    wa, wt, wb, wg = int(wa), int(wt), int(wb), int(wg)
    facts = []
    ev_ty = TNode('Event')

    def opt(name, w):
        if w == 0:
            return ct.opt_none(ev_ty)
        t, f = _event(it, ct, name, w)
        facts.extend(f)
        return ct.opt_some(ev_ty, t)
    scope_ci = ct.by_name['HplScope']
    pat_ci = ct.by_name['HplPattern']
    prop_ci = ct.by_name['HplProperty']
    scope = ct.ctor(scope_ci, {'scope_type': ct.lift(ScopeType[sk], TEnum(ScopeType)), 'activator': opt('a', wa),
                               'terminator': opt('t', wt)})
    beh, f = _event(it, ct, 'b', wb)
    facts.extend(f)
    min_time = z3.Real('min_time')
    max_time = z3.Real('max_time')
    facts.append(min_time >= 0)
    facts.append(max_time >= min_time)
    pattern = ct.ctor(pat_ci, {'pattern_type': ct.lift(PatternType[pk], TEnum(PatternType)), 'behaviour': beh,
                               'trigger': opt('g', wg), 'min_time': min_time, 'max_time': max_time})
    prop = ct.ctor(prop_ci, {'scope': scope, 'pattern': pattern})
    return {'property': SV(prop, TNode('Property'), oid=('param', 'property'))}, facts


def shape_grid(max_w=2):
    out = []
    for sk, (has_a, has_t) in (('GLOBAL', (0, 0)), ('AFTER', (1, 0)), ('UNTIL', (0, 1)), ('AFTER_UNTIL', (1, 1))):
        for pk in ('ABSENCE', 'EXISTENCE', 'REQUIREMENT', 'RESPONSE', 'PREVENTION'):
            has_g = pk in ('REQUIREMENT', 'RESPONSE', 'PREVENTION')
            for wa in (range(1, max_w + 1) if has_a else [0]):
                for wt in ([1, 2] if has_t else [0]):
                    for wb in range(1, max_w + 1):
                        for wg in (range(1, max_w + 1) if has_g else [0]):
                            out.append(f'{sk},{pk},{wa},{wt},{wb},{wg}')
    return out
