"""C13 - predicate combinators are semantically exact.

`pev(p, rho)`: the truth value of a predicate (vacuous truth: True, contradiction: False, otherwise the value of its
condition, specs/sem.py).  negate() denotes logical negation and join() logical conjunction on every valuation; the
vacuous truth is the identity and the contradiction the annihilator of join (result identities)."""
from hpl.ast.expressions import HplExpression, HplUnaryOperator, HplBinaryOperator, HplQuantifier, HplLiteral
from hpl.ast.predicates import HplPredicate, HplPredicateExpression, HplVacuousTruth, HplContradiction
from pyvc.contracts import contract, invariant, lemma, spec, aux, tag, unfold
from specs.typing import wt, with_dt, BOOL, NONE
from specs.sem import ev, forall_env
from specs.tree import wf_q
import contracts.typing_c03  # noqa: F401
import contracts.queries_c15  # noqa: F401
import contracts.sem_lemmas  # noqa: F401


@spec
def pev(p: 'Pred', rho: 'Env') -> 'Bool':
    if isinstance(p, HplVacuousTruth):
        return True
    if isinstance(p, HplContradiction):
        return False
    return ev(p.expression, rho)


@spec(inline=True)
def valid_p(p: 'Pred') -> 'Bool':
    """a predicate as the parser builds it: a well-typed boolean condition with hygienic quantifiers"""
    return (not isinstance(p, HplPredicateExpression)) \
        or (wt(p.expression) and p.expression.data_type == BOOL and wf_q(p.expression))


# The constructor's validators (reference table keyed by printed form, pairwise type agreement of equal references)
# are outside the translated subset: ASSUMED contract, evaluated natively in the bounded tier.  It may raise TypeError
# (C14 allows a type error of a predicate when two references of incompatible types coincide).
@contract('hpl.ast.predicates.HplPredicateExpression.__init__', props=['C13'])
class PredExpr_init:
    result = 'Pred'
    params = {'expression': 'Expr'}
    raise_mode = {'TypeError': 'only_if'}

    @aux
    def requires(expression):
        return wt(expression)

    @tag('C14')
    def raises_TypeError(expression):
        return True

    def ensures_value(expression, result):
        return isinstance(result, HplPredicateExpression) \
            and result.expression == with_dt(expression, expression.data_type & BOOL) \
            and (expression.data_type & BOOL) != NONE


@contract('hpl.ast.predicates.HplPredicate.negate', virtual=True, props=['C13'])
class Pred_negate:
    result = 'Pred'
    raise_mode = {'TypeError': 'only_if'}

    @aux
    def requires(self):
        return valid_p(self)

    @tag('C14')
    def raises_TypeError(self):
        return True

    def ensures_negation(self, result):
        # "negate() denotes logical negation"
        return forall_env(lambda rho: pev(result, rho) == (not pev(self, rho)))

    @aux
    def ensures_valid(self, result):
        return valid_p(result)


@contract('hpl.ast.predicates.HplPredicate.join', virtual=True, props=['C13'])
class Pred_join:
    result = 'Pred'
    raise_mode = {'TypeError': 'only_if'}

    @aux
    def requires(self, other):
        return valid_p(self) and valid_p(other)

    @tag('C14')
    def raises_TypeError(self, other):
        return True

    def ensures_conjunction(self, other, result):
        # "join() [denotes] logical conjunction"
        return forall_env(lambda rho: pev(result, rho) == (pev(self, rho) and pev(other, rho)))

    def ensures_identity(self, other, result):
        # "with the vacuous truth ... acting as identity"
        return ((not isinstance(self, HplVacuousTruth)) or result == other) \
            and ((not isinstance(other, HplVacuousTruth)) or result == self)

    def ensures_annihilator(self, other, result):
        # "... and the contradiction acting as ... annihilator"
        return ((not isinstance(self, HplContradiction)) or isinstance(result, HplContradiction)) \
            and ((not isinstance(other, HplContradiction)) or isinstance(result, HplContradiction))

    @aux
    def ensures_valid(self, other, result):
        return valid_p(result)
