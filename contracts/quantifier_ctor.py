"""The quantifier constructor under proof (it was an ASSUMED contract): its validators walk `iterate()` of the
domain and of the condition.  The lemmas below characterise the reference specs (mentions, binds, uses_ok) as folds over
`preorder`, which is what iterate() returns (C15), so that the loops of the validators can be related to the specs."""
from hpl.ast.expressions import (HplExpression, HplVarReference, HplQuantifier, HplSet, HplFunctionCall, HplRange,
                                 HplUnaryOperator, HplBinaryOperator, HplFieldAccess, HplArrayAccess)
from pyvc.contracts import contract, invariant, lemma, spec, aux, tag, unfold
from specs.tree import mentions, binds, preorder, preorder_all, slots
from specs.typing import uses_ok, NONE, with_dt
import contracts.queries_c15  # noqa: F401  (iterate)
import contracts.types_c20  # noqa: F401  (union)
import contracts.typing_c03  # noqa: F401


@spec(inline=True)
def var_named(n: 'Expr', v: 'Str') -> 'Bool':
    return isinstance(n, HplVarReference) and n.token[1:] == v


@spec(inline=True)
def quant_binding(n: 'Expr', v: 'Str') -> 'Bool':
    return isinstance(n, HplQuantifier) and n.variable == v


@spec(inline=True)
def var_ok(n: 'Expr', v: 'Str', t: 'DT') -> 'Bool':
    return (not var_named(n, v)) or (n.data_type & t) != NONE


# ------------------------------------------------------------------ folds over concatenations / singletons

def _p_vn(s, t, v):
    return any(var_named(n, v) for n in s + t)


@lemma(induction_on='s', auto=('preorder',), patterns=_p_vn)
def vn_append(s: 'Seq[Expr]', t: 'Seq[Expr]', v: 'Str') -> 'Bool':
    return any(var_named(n, v) for n in s + t) == (any(var_named(n, v) for n in s) or any(var_named(n, v) for n in t))


def _p_vnu(u, v):
    return any(var_named(n, v) for n in u)


@lemma(auto=('preorder',), patterns=_p_vnu)
def vn_unit(u: 'Seq[Expr]', v: 'Str') -> 'Bool':
    return (len(u) != 0 or not any(var_named(n, v) for n in u)) \
        and (len(u) != 1 or any(var_named(n, v) for n in u) == var_named(u[0], v))


def _p_qb(s, t, v):
    return any(quant_binding(n, v) for n in s + t)


@lemma(induction_on='s', auto=('preorder',), patterns=_p_qb)
def qb_append(s: 'Seq[Expr]', t: 'Seq[Expr]', v: 'Str') -> 'Bool':
    return any(quant_binding(n, v) for n in s + t) \
        == (any(quant_binding(n, v) for n in s) or any(quant_binding(n, v) for n in t))


def _p_qbu(u, v):
    return any(quant_binding(n, v) for n in u)


@lemma(auto=('preorder',), patterns=_p_qbu)
def qb_unit(u: 'Seq[Expr]', v: 'Str') -> 'Bool':
    return (len(u) != 0 or not any(quant_binding(n, v) for n in u)) \
        and (len(u) != 1 or any(quant_binding(n, v) for n in u) == quant_binding(u[0], v))


def _p_vo(s, t, v, ty):
    return all(var_ok(n, v, ty) for n in s + t)


@lemma(induction_on='s', auto=('preorder',), patterns=_p_vo)
def vo_append(s: 'Seq[Expr]', t: 'Seq[Expr]', v: 'Str', ty: 'DT') -> 'Bool':
    return all(var_ok(n, v, ty) for n in s + t) == (all(var_ok(n, v, ty) for n in s) and all(var_ok(n, v, ty) for n in t))


def _p_vou(u, v, ty):
    return all(var_ok(n, v, ty) for n in u)


@lemma(auto=('preorder',), patterns=_p_vou)
def vo_unit(u: 'Seq[Expr]', v: 'Str', ty: 'DT') -> 'Bool':
    return (len(u) != 0 or all(var_ok(n, v, ty) for n in u)) \
        and (len(u) != 1 or all(var_ok(n, v, ty) for n in u) == var_ok(u[0], v, ty))


# ------------------------------------------------------------------ preorder of short child lists

@lemma()
def pa1(a: 'Expr') -> 'Bool':
    return preorder_all((a,)) == preorder(a)


@lemma()
def pa2(a: 'Expr', b: 'Expr') -> 'Bool':
    return preorder_all((a, b)) == preorder(a) + preorder(b)


def fixed_children_hint(e):
    """preorder(e) spelled out for the node classes with a fixed number of children"""
    if isinstance(e, HplRange):
        pa2(e.min_value, e.max_value)
    if isinstance(e, HplQuantifier):
        pa2(e.domain, e.condition)
    if isinstance(e, HplUnaryOperator):
        pa1(e.operand)
    if isinstance(e, HplBinaryOperator):
        pa2(e.operand1, e.operand2)
    if isinstance(e, HplFieldAccess):
        pa1(e.message)
    if isinstance(e, HplArrayAccess):
        pa2(e.array, e.index)


# ------------------------------------------------------------------ the reference specs as folds over preorder

@spec
def mentions_pre_ok(e: 'Expr', v: 'Str') -> 'Bool':
    return mentions(e, v) == any(var_named(n, v) for n in preorder(e))


@lemma(induction_on='es')
def mentions_pre_list(es: 'Seq[Expr]', v: 'Str') -> 'Bool':
    elems = all(mentions_pre_ok(c, v) for c in es)
    return (not elems) or (any(mentions(c, v) for c in es) == any(var_named(n, v) for n in preorder_all(es)))


def _mp_hint(e, v):
    fixed_children_hint(e)
    if isinstance(e, HplSet):
        mentions_pre_list(e.values, v)
    if isinstance(e, HplFunctionCall):
        mentions_pre_list(e.arguments, v)


@lemma(induction_on='e', hint=_mp_hint)
def mentions_pre(e: 'Expr', v: 'Str') -> 'Bool':
    return mentions_pre_ok(e, v)


@spec
def binds_pre_ok(e: 'Expr', v: 'Str') -> 'Bool':
    return binds(e, v) == any(quant_binding(n, v) for n in preorder(e))


@lemma(induction_on='es')
def binds_pre_list(es: 'Seq[Expr]', v: 'Str') -> 'Bool':
    elems = all(binds_pre_ok(c, v) for c in es)
    return (not elems) or (any(binds(c, v) for c in es) == any(quant_binding(n, v) for n in preorder_all(es)))


def _bp_hint(e, v):
    fixed_children_hint(e)
    if isinstance(e, HplSet):
        binds_pre_list(e.values, v)
    if isinstance(e, HplFunctionCall):
        binds_pre_list(e.arguments, v)


@lemma(induction_on='e', hint=_bp_hint)
def binds_pre(e: 'Expr', v: 'Str') -> 'Bool':
    return binds_pre_ok(e, v)


@spec
def uses_pre_ok(e: 'Expr', v: 'Str', t: 'DT') -> 'Bool':
    return uses_ok(e, v, t) == all(var_ok(n, v, t) for n in preorder(e))


@lemma(induction_on='es')
def uses_pre_list(es: 'Seq[Expr]', v: 'Str', t: 'DT') -> 'Bool':
    elems = all(uses_pre_ok(c, v, t) for c in es)
    return (not elems) or (all(uses_ok(c, v, t) for c in es) == all(var_ok(n, v, t) for n in preorder_all(es)))


def _up_hint(e, v, t):
    fixed_children_hint(e)
    if isinstance(e, HplSet):
        uses_pre_list(e.values, v, t)
    if isinstance(e, HplFunctionCall):
        uses_pre_list(e.arguments, v, t)


@lemma(induction_on='e', hint=_up_hint)
def uses_pre(e: 'Expr', v: 'Str', t: 'DT') -> 'Bool':
    return uses_pre_ok(e, v, t)


def _p_bit(e, t, a):
    return binds(with_dt(e, t), a)


@lemma(auto=('binds',), patterns=_p_bit)
def binds_ignores_types(e: 'Expr', t: 'DT', a: 'Str') -> 'Bool':
    return binds(with_dt(e, t), a) == binds(e, a)


# ------------------------------------------------------------------ the constructor itself

from pyvc.contracts import CONTRACTS, Clause  # noqa: E402
from specs.typing import with_dt, elem_type, BOOL, COMPOUND  # noqa: E402

_Q = 'hpl.ast.expressions.HplQuantifier.__init__'


def _q_hint(quantifier, variable, domain, condition, data_type):
    # the validators walk iterate() == preorder of the *converted* (narrowed) domain and condition
    d = with_dt(domain, domain.data_type & COMPOUND)
    c = with_dt(condition, condition.data_type & BOOL)
    mentions_pre(d, variable)
    mentions_pre(c, variable)
    binds_pre(c, variable)
    uses_pre(c, variable, elem_type(domain))


CONTRACTS[_Q].hints.append(Clause('hint_preorder', _q_hint, 'aux', 'hint'))


def _q_loop_hint(done, rest, v, t):
    # the folds over the whole walk split into the part done and the part still to do
    vn_append(done, rest, v)
    qb_append(done, rest, v)
    vo_append(done, rest, v, t)


@invariant('hpl.ast.expressions.HplQuantifier._check_condition_is_bool', loop=0,
           types={'used': 'Int', 'v': 'Str', 't': 'DT'}, pre_hint=_q_loop_hint)
def _q_cond_inv(done, used, v, t):
    return used >= 0 and ((used > 0) == any(var_named(n, v) for n in done)) \
        and not any(quant_binding(n, v) for n in done) \
        and all(var_ok(n, v, t) for n in done)


def _q_dom_hint(done, rest, self):
    vn_append(done, rest, self.variable)


@invariant('hpl.ast.expressions.HplQuantifier._check_domain', loop=0, pre_hint=_q_dom_hint)
def _q_dom_inv(done, self):
    # no reference to the bound variable among the nodes of the domain walked so far
    return not any(var_named(n, self.variable) for n in done)
