from pyvc.runner import Prop, Fn, Lem, Ground, Native
from props.rewrite_common import ASSUMPTIONS, SEM_ASSUMPTIONS, SEM_LEMMAS, C09_LEMMAS

_R = 'hpl.rewrite.'
PROP = Prop(
    'C10',
    modules=['contracts.rewrite_c10'],
    tasks=[
        *[Lem(l) for l in SEM_LEMMAS],
        *[Lem(l) for l in C09_LEMMAS],
        Fn(_R + 'empty_test', safety_tag='C14'),
        Fn(_R + '_refactor_ref_expr', safety_tag='C14'),
        Fn(_R + '_split_ref_operator', safety_tag='C14'),
        Fn(_R + '_split_ref_negation', safety_tag='C14'),
        Fn(_R + '_split_ref_quantifier', safety_tag='C14'),
    ],
    bounded=[Native('bounded.rewrite_native.refactor_semantics'),
             Native('bounded.rewrite_native.sem_axioms_hold')],
    level='other',
    dep_tags=['C14'],
    explanation='PROVED for every well-typed expression with hygienic quantifiers (unbounded): _refactor_ref_expr, '
                '_split_ref_operator, _split_ref_negation, _split_ref_quantifier (incl. the inline De Morgan step and the '
                'empty-domain guard) satisfy "(f1 and f2) == f on every valuation" (truth-value semantics specs/sem.py), '
                '"f1 contains no reference to A" and "when f does not mention A the result is f itself paired with True". '
                'Not proved: the clause about variables bound in f (bounded), the predicate-level wrapper and the public '
                'dispatch (bounded), absence of TypeError/HplSanityError from the quantifier constructor (C14, bounded), '
                'the semantic axioms A-SEM. BOUNDED stand-in kept for all clauses.',
    assumptions=ASSUMPTIONS + SEM_ASSUMPTIONS,
    trusted_base=['z3 5.1.0', 'cvc5 1.0.3', 'pyvc symbolic executor', 'bounded.evaluator reference semantics', 'CPython'],
)
