from pyvc.runner import Prop, Fn, Lem, Ground, Native
from props.rewrite_common import ASSUMPTIONS

PROP = Prop(
    'C10',
    modules=[],
    tasks=[],
    bounded=[Native('bounded.rewrite_native.refactor_semantics')],
    level='exploration',
    explanation='BOUNDED ONLY at this commit: the real function(s) compared with the reference semantics on the expression '
                'corpus x a grid of valuations (labelled bounded, nothing counted as proved); contracts for the rewriting '
                'helpers are being added function by function.',
    assumptions=ASSUMPTIONS,
    trusted_base=['bounded.evaluator reference semantics', 'CPython'],
)
