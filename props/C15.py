from pyvc.runner import Prop, Fn, Lem, Ground, Native

EXPR = ['HplSet', 'HplRange', 'HplLiteral', 'HplThisMessage', 'HplVarReference', 'HplQuantifier',
        'HplUnaryOperator', 'HplBinaryOperator', 'HplFunctionCall', 'HplFieldAccess', 'HplArrayAccess']
_E = 'hpl.ast.expressions.HplExpression.'
_Q = [_E + m for m in ('children', 'external_references', 'contains_reference', 'contains_self_reference',
                       'contains_definition')]

_P = 'hpl.ast.predicates.HplPredicate.'
_V = 'hpl.ast.events.HplEvent.'
PRED = ['HplPredicateExpression', 'HplVacuousTruth', 'HplContradiction']
EVENT = ['HplSimpleEvent', 'HplEventDisjunction']
_PQ = [_P + m for m in ('external_references', 'contains_reference', 'contains_self_reference')]
_VQ = [_V + m for m in ('aliases', 'external_references', 'contains_reference', 'contains_self_reference',
                        'simple_events')]

PROP = Prop(
    'C15',
    modules=['contracts.queries_c15', 'contracts.queries_c15_events'],
    tasks=[
        *[Fn(q, classes=PRED, safety_tag='C15') for q in _PQ],
        *[Fn(q, classes=EVENT, safety_tag='C15') for q in _VQ],
        *[Fn(q, classes=EXPR, safety_tag='C15') for q in _Q],
        Fn(_E + 'iterate', safety_tag='C15'),
        Lem('rev_unfold'), Lem('snoc_last'), Lem('preorder_stack_unfold'), Lem('preorder_all_unfold'),
        Lem('stack_push_rev'), Lem('mentioned_unbound_is_free_list'), Lem('mentioned_unbound_is_free'),
    ],
    bounded=[
        Native('bounded.native_tasks.contracts_on_events', qualnames=_PQ + _VQ,
               modules=['contracts.queries_c15_events']),
        Native('bounded.native_tasks.own_field_check'),
        Native('bounded.native_tasks.contracts_on_expressions', qualnames=_Q + [_E + 'iterate'],
               modules=['contracts.queries_c15']),
        Native('bounded.native_tasks.spec_translation', modules=['contracts.queries_c15'],
               specs=['refs', 'mentions', 'mentions_this', 'binds', 'preorder', 'wf_q']),
    ],
    assumptions=[
        'A-ENGINE: pyvc translates the supported Python subset faithfully (contracts also evaluated natively on the corpus; spec translation cross-checked)',
        'A-ATTRS: attrs field declarations are the structure of a node; eq=False fields (metadata) are outside the value model',
        'A-TYPES: fields hold values of their declared classes (typeguard / instance_of validators)',
        'generators are pure: eager evaluation of iterate() equals lazy consumption',
    ],
    explanation='all reference queries and iterate() proved at expression, predicate and event level; the own-field check (check_some_self_references, which groups references by their printed form) is covered by a bounded stand-in only',
    trusted_base=['z3 5.1.0', 'cvc5 1.0.3 (sequence lemmas)', 'pyvc symbolic executor', 'attrs 24.3'],
)
