from pyvc.runner import Prop, Fn, Lem, Ground, Native
from props.typing_common import typing_tasks, ASSUMPTIONS

PROP = Prop(
    'C04',
    modules=['contracts.typing_c03'],
    tasks=typing_tasks('C04'),
    bounded=[Native('bounded.typing_native.typed_generation'), Native('bounded.native_tasks.contracts_on_constructors')],
    dep_tags=['C05', 'C03', 'C16'],
    level='other',
    explanation='completeness side of the constructor contracts: the TypeError conditions proved for 8 constructors and cast() '
                'are exact (raised only if an operand type set is disjoint from the parameter type), hence children whose type '
                'sets contain their schema type are never rejected and the narrowed set still contains it (intersection). '
                'The schema-assignment argument itself and the parser link are bounded (type-directed generation).',
    assumptions=ASSUMPTIONS + ['the invariant "the schema type stays inside the inferred type set" is argued from the exact '
                               'intersection semantics (C20) of every narrowing, not stated as a separate obligation'],
    trusted_base=['z3 5.1.0', 'cvc5 1.0.3', 'pyvc symbolic executor', 'attrs 24.3'],
)
