from pyvc.runner import Prop, Fn, Lem, Ground, Native
from props.rewrite_common import ASSUMPTIONS, SEM_ASSUMPTIONS, SEM_LEMMAS, C09_LEMMAS

_R = 'hpl.rewrite.'
PROP = Prop(
    'C09',
    modules=['contracts.rewrite_c09'],
    tasks=[
        *[Lem(l) for l in SEM_LEMMAS],
        *[Lem(l) for l in C09_LEMMAS],
        Fn(_R + 'empty_test', safety_tag='C14'),
        Fn(_R + '_split_and_quantifier', safety_tag='C14'),
        Fn(_R + '_split_and_not', safety_tag='C14'),
        Fn(_R + '_and_presplit_transform', safety_tag='C14'),
        Fn(_R + '_split_and_expr', safety_tag='C14'),
        Fn(_R + 'split_and', safety_tag='C14'),
    ],
    bounded=[Native('bounded.rewrite_native.split_and_semantics'),
             Native('bounded.rewrite_native.sem_axioms_hold')],
    level='other',
    dep_tags=['C14'],
    explanation='PROVED for every well-typed boolean expression (unbounded): split_and, _split_and_expr (work-list loop under '
                'an invariant), _and_presplit_transform, _split_and_not, _split_and_quantifier and empty_test satisfy '
                '"equivalent on every valuation" (truth-value semantics specs/sem.py, universally quantified valuation), '
                '"every part boolean and of none of the listed shapes", "ValueError only if unsatisfiable". Not proved: '
                'absence of TypeError/HplSanityError from the quantifier constructor on rebuilt bodies (declared may-raise, '
                'C14, bounded), the predicate-unwrapping dispatch of the public function, and the semantic axioms A-SEM '
                '(checked natively against the reference evaluator). BOUNDED stand-in kept for those parts.',
    assumptions=ASSUMPTIONS + SEM_ASSUMPTIONS,
    trusted_base=['z3 5.1.0', 'cvc5 1.0.3', 'pyvc symbolic executor', 'bounded.evaluator reference semantics', 'CPython'],
)
