ASSUMPTIONS = [
    'A-SEM: bounded.evaluator is the reference semantics (strict evaluation; string literal = text between quotes; '
    'ranges: real interval for `in`, integer members for quantification and len/sum/prod/max/min)',
    'A-REAL in the proof tier: numbers are mathematical; the bounded tier runs Python floats',
]
