ASSUMPTIONS = [
    'A-SEM: bounded.evaluator is the reference semantics (strict evaluation; string literal = text between quotes; '
    'ranges: real interval for `in`, integer members for quantification and len/sum/prod/max/min)',
    'A-REAL in the proof tier: numbers are mathematical; the bounded tier runs Python floats',
]

SEM_ASSUMPTIONS = [
    'A-SEM-0: truth-value semantics specs/sem.py: two-valued; boolean connectives and quantifiers as in the property '
    'statements; everything else abstract (atom/dom/bind uninterpreted); evaluation errors have no counterpart',
    'A-SEM-1 (axiom atom_ignores_types, dom_ignores_types): stored type sets do not influence values',
    'A-SEM-2 (axiom ev_frame, dom_frame): a value does not depend on a variable the expression does not mention',
    'A-SEM-3 (axiom empty_test_sem): `len(d) = 0` holds exactly when the domain d has no members',
    'callee contract HplQuantifier.__init__: proved by the checks of C03 and C02 (not re-proved here); assumed constructor '
    'contract (checked natively only): HplFunctionCall.__init__',
    'termination is not proved (partial correctness)',
]
SEM_LEMMAS = ['atom_ignores_types', 'dom_ignores_types', 'ev_frame', 'dom_frame', 'empty_test_sem',
              'ev_ignores_types', 'equiv_types', 'equiv_sym', 'equiv_trans', 'all_cong', 'any_cong', 'all_and',
              'all_const', 'all_neg', 'conj_snoc', 'conj_append', 'conj_unit', 'conj_last',
              'mentions_ignores_types', 'wfq_ignores_types', 'mentions_binary', 'mentions_unary', 'wfq_binary', 'wfq_unary',
              'wt_binary_operands', 'wt_unary_operand', 'wt_quantifier_parts', 'bool_binary_operands', 'bool_unary_operand',
              'de_morgan_equiv', 'mentions_empty_test']
C09_LEMMAS = ['valid_conj_operands', 'valid_snoc', 'valid_append', 'valid_unit', 'valid_last', 'out_snoc', 'out_append', 'out_unit']
