from pyvc.runner import Prop, Fn, Lem, Ground, Native

_P = 'hpl.ast.properties.HplProperty.'

PROP = Prop(
    'C02',
    modules=['contracts.sanity_c02'],
    tasks=[
        Fn(_P + '_check_refs_defined', safety_tag='C02'),
        Fn(_P + '_check_duplicates', safety_tag='C02'),
        Fn(_P + '__init__', safety_tag='C02'),
    ],
    bounded=[
        Native('bounded.c02_native.sane_grid'),
    ],
    assumptions=[
        'A-ATTRS: the attrs-generated __init__ text (read from linecache on every run) is what runs; it ends in __attrs_post_init__ -> sanity_check',
        'event/predicate query contracts (C15) are used at the call sites (proved there)',
        'clause (iii) duplicate channels and (iv) quantifier hygiene are enforced by the constructors of HplEventDisjunction / HplQuantifier: covered here by the bounded grid only (proof of those two constructors not built yet)',
        'reading: two alternatives of one disjunction binding the same alias are not a re-binding (DESIGN section 6, C02)',
    ],
    explanation='HplProperty construction (generated __init__ -> sanity_check -> helpers) raises HplSanityError iff not sane(scope, pattern), proved for all scopes/patterns/events; clauses (iii)/(iv) bounded',
    trusted_base=['z3 5.1.0', 'cvc5 1.0.3', 'pyvc symbolic executor', 'attrs 24.3 generated __init__'],
)
