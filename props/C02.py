from pyvc.runner import Prop, Fn, Lem, Ground, Native
from props.typing_common import quantifier_ctor_tasks

_P = 'hpl.ast.properties.HplProperty.'
EXPR = ['HplSet', 'HplRange', 'HplLiteral', 'HplThisMessage', 'HplVarReference', 'HplQuantifier',
        'HplUnaryOperator', 'HplBinaryOperator', 'HplFunctionCall', 'HplFieldAccess', 'HplArrayAccess']

PROP = Prop(
    'C02',
    modules=['contracts.sanity_c02', 'contracts.events_c02', 'contracts.quantifier_ctor'],
    tasks=[
        Fn(_P + '_check_refs_defined', safety_tag='C02'),
        Fn(_P + '_check_duplicates', safety_tag='C02'),
        Fn(_P + '__init__', safety_tag='C02'),
        Fn('hpl.ast.events.HplEventDisjunction.__init__', safety_tag='C02'),
        Lem('concat_nth'), Lem('alts_are_simple'),
        # clause (iv): the quantifier constructor (its HplSanityError clause is tagged C02)
        *quantifier_ctor_tasks('C02'),
        # lemmas of the reference queries (C15) that the query tasks below use as hints
        Lem('mentioned_unbound_is_free_list'), Lem('mentioned_unbound_is_free'),
        # the queries the acceptance rule is computed from (callee contracts of the chain above)
        *[Fn('hpl.ast.events.HplEvent.' + m, classes=['HplSimpleEvent', 'HplEventDisjunction'], safety_tag='C02')
          for m in ('aliases', 'external_references')],
        *[Fn('hpl.ast.predicates.HplPredicate.external_references', classes=['HplPredicateExpression',
                                                                             'HplVacuousTruth', 'HplContradiction'],
             safety_tag='C02')],
        *[Fn('hpl.ast.expressions.HplExpression.external_references', classes=EXPR, safety_tag='C02')],
    ],
    dep_tags=['C15'],
    bounded=[
        Native('bounded.c02_native.sane_grid'),
        Native('bounded.native_tasks.contracts_on_events', modules=['contracts.queries_c15_events'],
               qualnames=['hpl.ast.predicates.HplPredicate.external_references', 'hpl.ast.events.HplEvent.external_references',
                          'hpl.ast.events.HplEvent.aliases']),
        Native('bounded.c02_native.quantifier_hygiene'),
        Native('bounded.c02_native.channel_grid'),
    ],
    assumptions=[
        'A-ATTRS: the attrs-generated __init__ text (read from linecache on every run) is what runs; it ends in __attrs_post_init__ -> sanity_check',
        'event/predicate query contracts (C15) are used at the call sites (proved there)',
        'clause (iv) quantifier hygiene is enforced by the constructor of HplQuantifier, proved here as well (contracts/quantifier_ctor.py): it raises HplSanityError only if hygiene is broken and a returned quantifier is hygienic',
        'reading: two alternatives of one disjunction binding the same alias are not a re-binding (DESIGN section 6, C02)',
    ],
    explanation='HplProperty construction (generated __init__ -> sanity_check -> helpers) raises HplSanityError iff not sane(scope, pattern), proved for all scopes/patterns/events; clause (iii): HplEventDisjunction construction raises iff a channel repeats (loop invariant); clause (iv): HplQuantifier construction raises HplSanityError only if the variable is used in the domain, re-bound or unused in the body, and returns only hygienic quantifiers (two validator loops under invariants)',
    trusted_base=['z3 5.1.0', 'cvc5 1.0.3', 'pyvc symbolic executor', 'attrs 24.3 generated __init__'],
)
