from pyvc.runner import Prop, Fn, Lem, Ground, Native
from props.parser_common import expression_callbacks, property_callbacks, file_callbacks, ASSUMPTIONS

PROP = Prop(
    'C01',
    modules=['contracts.parser_c01'],
    tasks=[Ground('bounded.parser_ground.generated_grammar'), *expression_callbacks('C01'), *property_callbacks('C01')],
    bounded=[Native('bounded.parser_native.parse_trees')],
    dep_tags=['C03', 'C05', 'C16', 'C02'],
    level='other',
    explanation='proved: the tree-building callbacks (operator identity and operand order for all 16 binary operators, negation / minus, literals, references, field/index chains, range exclusivity, pattern roles for all five patterns, INF default and ms conversion of time bounds, scope roles, disjunction membership and order for widths 2-4) build exactly the stated nodes from their children; ground: the embedded grammar module equals the generator output and the operator tables match the grammar tokens. BOUNDED (A-LARK): which tree the LALR parser assigns to a text. Open finding F7.',
    assumptions=ASSUMPTIONS,
    trusted_base=['z3 5.1.0', 'pyvc symbolic executor', 'lark 1.3.1 (bounded only)'],
)
