from pyvc.runner import Prop, Fn, Lem, Ground, Native
from props.typing_common import typing_tasks, ASSUMPTIONS

PROP = Prop(
    'C16',
    modules=['contracts.typing_c03'],
    tasks=[Ground('bounded.c16_native.inventory'), *typing_tasks('C16')],
    bounded=[Native('bounded.c16_native.snapshots')],
    dep_tags=['C03', 'C05'],
    level='other',
    explanation='(1) ground obligations on every run: all AST classes frozen, metadata declared init=False/eq=False, the write '
                'inventory of the source is exactly W1 (post-init of the object under construction), W2 (forced narrowing in '
                '_type_check), W3 (metadata.update on an object created in the same function) - fails closed; '
                '(2) proved: cast() on all 11 expression classes returns self or a copy and narrows nothing in place; the 8 '
                'verified constructors narrow exactly the operands their contracts declare, so every caller that passes a '
                'pre-existing node gets a frame obligation (no-op narrowing); (3) bounded: deep snapshots around every API call. '
                'The frame obligations of the rewriting functions themselves belong to C08-C10/C13 (not yet under contract).',
    assumptions=ASSUMPTIONS + ['metadata contents are outside the value model (identity of the dict is tracked, contents checked natively)'],
    trusted_base=['z3 5.1.0', 'pyvc symbolic executor', 'attrs 24.3 frozen classes'],
)
