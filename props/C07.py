from pyvc.runner import Prop, Fn, Lem, Ground, Native
from props.parser_common import expression_callbacks, property_callbacks, file_callbacks, ASSUMPTIONS

PROP = Prop(
    'C07',
    modules=['contracts.parser_c01'],
    tasks=[*expression_callbacks('C07'), *property_callbacks('C07'), *file_callbacks('C07')],
    bounded=[Native('bounded.parser_native.fuzz')],
    dep_tags=['C01', 'C18', 'C03', 'C05', 'C16', 'C02'],
    level='other',
    explanation='proved: safety obligations of the callbacks under contract: under the rule-derived child shapes only the documented exception classes can escape (every assert, subscript, attribute access on a sum type and enum lookup on every path is discharged); BOUNDED (A-LARK): exceptions of the parsing library itself, statelessness of the parser object (fuzzing, call-order permutations).',
    assumptions=ASSUMPTIONS,
    trusted_base=['z3 5.1.0', 'pyvc symbolic executor', 'lark 1.3.1 (bounded only)'],
)
