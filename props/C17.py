from pyvc.runner import Prop, Fn, Lem, Ground, Native

_T = 'hpl.types.'

PROP = Prop(
    'C17',
    modules=['contracts.types_c17'],
    tasks=[
        Fn(_T + 'ArrayType.contains_index', safety_tag='C17'), Fn(_T + 'ArrayType.is_fixed_length', safety_tag='C17'),
        Fn(_T + 'ArrayType.__init__', safety_tag='C17'), Fn(_T + 'TypeToken.__init__', safety_tag='C17'),
        Fn(_T + 'RangedType.__init__', safety_tag='C17'), Fn(_T + 'EnumeratedType.__init__', safety_tag='C17'),
        Ground('bounded.c17_native.int_tokens'),
    ],
    bounded=[Native('bounded.c17_native.schema_walk')],
    level='other',
    explanation='proved: token constructors reject ill-formed declarations (max<min, length<-1, wrong-kind enumerated values, '
                'non-base type), ArrayType.contains_index/is_fixed_length, the predefined integer tokens (ground). '
                'BOUNDED (not proved): the schema walk type_check_references and the navigation helpers, compared with an '
                'independent resolver on a schema x property grid.',
    assumptions=['A-REAL: numeric bounds are mathematical numbers', 'A-ATTRS stock validators in_/ge/instance_of as documented',
                 'the schema walk (two while loops over accessor chains, dict-typed schemas) is not under contract yet'],
    trusted_base=['z3 5.1.0', 'pyvc symbolic executor', 'attrs 24.3'],
)
