import os

from pyvc.runner import Prop, Fn, Lem, Ground, Native

_QUICK = ['GLOBAL,ABSENCE,0,0,1,0', 'GLOBAL,ABSENCE,0,0,2,0', 'GLOBAL,EXISTENCE,0,0,2,0', 'GLOBAL,REQUIREMENT,0,0,2,2',
          'GLOBAL,RESPONSE,0,0,2,2', 'GLOBAL,PREVENTION,0,0,2,2', 'AFTER,ABSENCE,2,0,2,0', 'AFTER,EXISTENCE,2,0,2,0',
          'AFTER,RESPONSE,2,0,1,2', 'AFTER,RESPONSE,1,0,2,1', 'AFTER,REQUIREMENT,2,0,2,1', 'AFTER,PREVENTION,1,0,2,2',
          'UNTIL,ABSENCE,0,2,2,0', 'UNTIL,RESPONSE,0,2,2,2', 'AFTER_UNTIL,REQUIREMENT,2,1,2,2', 'AFTER_UNTIL,PREVENTION,2,2,1,2',
          'AFTER_UNTIL,EXISTENCE,2,2,2,0', 'AFTER_UNTIL,RESPONSE,2,1,2,2', 'AFTER,ABSENCE,3,0,3,0', 'GLOBAL,RESPONSE,0,0,1,3']


def _shapes():
    if os.environ.get('VERIF_TIER') == 'thorough' or '--tier thorough' in ' '.join(os.sys.argv):
        from contracts.canon_c11 import shape_grid
        return shape_grid(2)
    return _QUICK


PROP = Prop(
    'C11',
    modules=['contracts.canon_c11'],
    tasks=[
        *[Fn('hpl.rewrite.canonical_form', safety_tag='C11', shape='contracts.canon_c11:shape|' + s) for s in _shapes()],
    ],
    bounded=[Native('bounded.c11_native.grid')],
    level='other',
    explanation='canonical_form proved equal to the decomposition canon() (which positions are split, order, identity of '
                'unsplit inputs, everything else unchanged) for symbolic simple events / aliases / predicates / time bounds, '
                'on inputs whose disjunction widths are fixed per task (bounded in width: quick 20 shapes, thorough all 144 '
                'shapes up to width 2); metadata copy, idempotence and validity of the outputs are covered by the bounded '
                'grid; open finding F13 (outputs that cannot be constructed).',
    assumptions=['metadata (eq=False) is outside the value model: its copy is checked natively only',
                 'constructor contracts of HplProperty (C02) are used at the re-construction sites',
                 'bounded in disjunction width, not in anything else'],
    trusted_base=['z3 5.1.0', 'cvc5 1.0.3', 'pyvc symbolic executor', 'attrs.evolve modelled as constructor on updated init fields (A-ATTRS)'],
)
