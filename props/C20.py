from pyvc.runner import Prop, Fn, Lem, Ground, Native

_CAN = ['can_be_bool', 'can_be_number', 'can_be_string', 'can_be_array', 'can_be_set', 'can_be_range',
        'can_be_message']

PROP = Prop(
    'C20',
    modules=['contracts.types_c20'],
    tasks=[
        Fn('hpl.types.DataType.cast'), Fn('hpl.types.DataType.can_be'), Fn('hpl.types.DataType.union'),
        *[Fn(f'hpl.types.DataType.{n}') for n in _CAN],
        Lem('meet_idempotent'), Lem('meet_commutative'), Lem('meet_associative'), Lem('meet_monotone'),
        Lem('meet_nonempty_iff_shared_base'), Lem('meet_is_glb'), Lem('all_below_monotone'), Lem('union_is_upper_bound'),
        Lem('union_is_least'),
        Ground('bounded.c20_native.members'),
    ],
    bounded=[Native('bounded.c20_native.flag_semantics')],
    assumptions=[
        'A-FLAG: enum.Flag &, |, bool() are bitwise on .value (validated on all 128x128 pairs on this run)',
        'A-ENGINE: pyvc translates the supported Python subset faithfully (cross-checked natively on all pairs)',
        'A-SOLVER: z3 5.1.0 bit-vector / sequence reasoning is sound',
    ],
    trusted_base=['z3 5.1.0', 'CPython enum.Flag', 'pyvc symbolic executor'],
)
