from pyvc.runner import Prop, Fn, Lem, Ground, Native

PROP = Prop(
    'C19',
    modules=['contracts.parser_c01'],
    tasks=[Ground('bounded.parser_ground.serializer'), Fn('hpl.cli._ast_object_serializer', safety_tag='C19')],
    bounded=[Native('bounded.parser_native.cli')],
    level='other',
    explanation='proved/ground: the value serializer maps enum members to their values, non-finite floats to None and leaves '
                'every other value unchanged. BOUNDED (A-3P): that attrs.asdict passes every field through it, that json.dumps '
                'emits one strictly valid document, argparse behaviour and the exit status of main() - in-process runs of '
                'hpl.cli.main compared with an independent walk of the AST.',
    assumptions=['A-3P: attrs.asdict, json.dumps, argparse, pathlib are third-party / standard library'],
    trusted_base=['CPython json/argparse', 'attrs.asdict'],
)
