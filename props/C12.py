from pyvc.runner import Prop, Fn, Lem, Ground, Native
from props.C11 import _shapes

# C12 speaks about properties whose activator is not a disjunction
_S = [s for s in _shapes() if s.split(',')[2] in ('0', '1')]

PROP = Prop(
    'C12',
    modules=['contracts.canon_c11'],
    tasks=[
        Ground('bounded.c12_lemmas.lemmas'),
        *[Fn('hpl.rewrite.canonical_form', safety_tag='C12', shape='contracts.canon_c11:shape|' + s) for s in _S],
    ],
    dep_tags=['C11'],
    level='other',
    explanation='(1) lemmas: for every (pattern kind, split position) of the decomposition canon(), a timed trace of '
                'unbounded length satisfies P[pos := X or Y] iff it satisfies P[pos := X] and P[pos := Y] (uninterpreted '
                'matching predicates with alias bindings, arbitrary scope window, optional time bound) - discharged by z3; '
                'n-ary splits follow by induction on the right-nested disjunction; (2) the code implements canon(): the C11 '
                'obligations for shapes with a non-disjunctive activator.',
    assumptions=['A-SEM: sat() is a formalisation of docs/lang.md written here (scopes as an arbitrary window predicate)',
                 'the split table is the one of specs.canon, which C11 proves the code implements (bounded in width)'],
    trusted_base=['z3 5.1.0 quantifier reasoning', 'specs.canon.split_position', 'pyvc symbolic executor'],
)
