from pyvc.runner import Prop, Fn, Lem, Ground, Native
from props.typing_common import typing_tasks, quantifier_ctor_tasks, ASSUMPTIONS

PROP = Prop(
    'C03',
    modules=['contracts.typing_c03', 'contracts.quantifier_ctor'],
    tasks=typing_tasks('C03') + quantifier_ctor_tasks('C03'),
    bounded=[Native('bounded.native_tasks.contracts_on_constructors'), Native('bounded.typing_native.wt_outputs')],
    dep_tags=['C16', 'C05'],
    level='other',
    explanation='class invariant wt (C03 node by node) proved for the results of 8 expression constructors (generated __init__ '
                '+ validators + post-init executed from source) and of cast() on all 11 classes, given well-typed children; '
                'the quantifier constructor (validators walking iterate(): two loops under invariants, specs characterised as folds over '
                'preorder by induction lemmas) is proved too: raises only if the types clash / hygiene is broken, and a returned '
                'quantifier is accepted, has the stated fields and is well-typed; '
                'constructors of HplSet/HplFunctionCall and the predicate-level check are under ASSUMED contracts; '
                'parser and rewriting outputs: bounded (wt on every node). Open finding F16 (call arguments not narrowed).',
    assumptions=ASSUMPTIONS,
    trusted_base=['z3 5.1.0', 'cvc5 1.0.3', 'pyvc symbolic executor', 'attrs 24.3'],
)
