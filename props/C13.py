from pyvc.runner import Prop, Fn, Lem, Ground, Native
from props.rewrite_common import ASSUMPTIONS, SEM_ASSUMPTIONS, SEM_LEMMAS

PRED = ['HplPredicateExpression', 'HplVacuousTruth', 'HplContradiction']
_P = 'hpl.ast.predicates.HplPredicate.'
PROP = Prop(
    'C13',
    modules=['contracts.rewrite_c13'],
    tasks=[
        *[Lem(l) for l in SEM_LEMMAS],
        *[Fn(_P + 'negate', classes=PRED, safety_tag='C14')],
        *[Fn(_P + 'join', classes=PRED, safety_tag='C14')],
    ],
    bounded=[Native('bounded.rewrite_native.combinators_semantics'),
             Native('bounded.rewrite_native.sem_axioms_hold'),
             Native('bounded.native_tasks.predicate_constructor_contract')],
    level='other',
    dep_tags=['C14'],
    explanation='PROVED (unbounded, the three predicate classes): negate() denotes logical negation and join() logical '
                'conjunction on every valuation (truth-value semantics specs/sem.py), the vacuous truth is the identity and '
                'the contradiction the annihilator of join. ASSUMED: the contract of HplPredicateExpression.__init__ (its '
                'validators group references by printed form: outside the translated subset; evaluated natively), which may '
                'raise TypeError. BOUNDED ONLY: the this<->variable replacements (generic deep replacement through reshape '
                'with closures), their inverse law and the event alias normalisation, against the reference evaluator.',
    assumptions=ASSUMPTIONS + SEM_ASSUMPTIONS + ['assumed contract: HplPredicateExpression.__init__ (may raise TypeError; '
                                                 'stores the condition narrowed to BOOL)'],
    trusted_base=['z3 5.1.0', 'cvc5 1.0.3', 'pyvc symbolic executor', 'bounded.evaluator reference semantics', 'CPython'],
)
