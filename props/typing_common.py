from pyvc.runner import Fn

EXPR = ['HplSet', 'HplRange', 'HplLiteral', 'HplThisMessage', 'HplVarReference', 'HplQuantifier',
        'HplUnaryOperator', 'HplBinaryOperator', 'HplFunctionCall', 'HplFieldAccess', 'HplArrayAccess']
_E = 'hpl.ast.expressions.'
VERIFIED_CTORS = ['HplUnaryOperator', 'HplBinaryOperator', 'HplRange', 'HplFieldAccess', 'HplArrayAccess', 'HplLiteral',
                  'HplVarReference', 'HplThisMessage']
ASSUMED_CTORS = ['HplSet', 'HplFunctionCall']
QUANTIFIER_LEMMAS = ['vn_append', 'vn_unit', 'qb_append', 'qb_unit', 'vo_append', 'vo_unit', 'pa1', 'pa2',
                     'mentions_pre_list', 'mentions_pre', 'binds_pre_list', 'binds_pre', 'uses_pre_list', 'uses_pre',
                     'binds_ignores_types']


def quantifier_ctor_tasks(tag):
    """the quantifier constructor (validators walking iterate()) with the lemmas its proof uses: hosted by C03 only
    (a 5-minute task); the other properties use its contract as a callee contract proved there"""
    from pyvc.runner import Lem
    return [*[Lem(l) for l in QUANTIFIER_LEMMAS], Fn(_E + 'HplQuantifier.__init__', safety_tag=tag)]


def typing_tasks(tag):
    return [
        *[Fn(_E + f'{c}.__init__', safety_tag=tag) for c in VERIFIED_CTORS],
        Fn(_E + 'HplExpression.cast', classes=EXPR, safety_tag=tag),
    ]


ASSUMPTIONS = [
    'ASSUMED contracts (bodies not verified, evaluated natively on the corpus by the bounded tier): constructors of '
    'HplSet (comprehension converter), HplFunctionCall (overload matching loops), '
    'HplPredicateExpression (reference table keyed by printed form)',
    'the contract of HplQuantifier.__init__ is PROVED by the check of C03 (task hpl.ast.expressions.HplQuantifier.__init__); '
    'the other properties use it as a callee contract',
    'operators and functions of a node are the built-in definitions (read from the live Builtin* enums on every run)',
    'an explicitly passed data_type keyword wider than the node kind allows is stored as given (API-only corner; the parser never passes one)',
    'A-ATTRS: attrs-generated __init__ text from linecache; attrs.evolve = constructor on the current init fields updated',
    'A-LARK-CALL: parser callbacks are invoked bottom-up with the results of their children (parser link is bounded)',
]
