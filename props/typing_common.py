from pyvc.runner import Fn

EXPR = ['HplSet', 'HplRange', 'HplLiteral', 'HplThisMessage', 'HplVarReference', 'HplQuantifier',
        'HplUnaryOperator', 'HplBinaryOperator', 'HplFunctionCall', 'HplFieldAccess', 'HplArrayAccess']
_E = 'hpl.ast.expressions.'
VERIFIED_CTORS = ['HplUnaryOperator', 'HplBinaryOperator', 'HplRange', 'HplFieldAccess', 'HplArrayAccess', 'HplLiteral',
                  'HplVarReference', 'HplThisMessage']
ASSUMED_CTORS = ['HplSet', 'HplFunctionCall', 'HplQuantifier']


def typing_tasks(tag):
    return [
        *[Fn(_E + f'{c}.__init__', safety_tag=tag) for c in VERIFIED_CTORS],
        Fn(_E + 'HplExpression.cast', classes=EXPR, safety_tag=tag),
    ]


ASSUMPTIONS = [
    'ASSUMED contracts (bodies not verified, evaluated natively on the corpus by the bounded tier): constructors of '
    'HplSet (comprehension converter), HplFunctionCall (overload matching loops), HplQuantifier (validators looping over iterate()), '
    'HplPredicateExpression (reference table keyed by printed form)',
    'operators and functions of a node are the built-in definitions (read from the live Builtin* enums on every run)',
    'an explicitly passed data_type keyword wider than the node kind allows is stored as given (API-only corner; the parser never passes one)',
    'A-ATTRS: attrs-generated __init__ text from linecache; attrs.evolve = constructor on the current init fields updated',
    'A-LARK-CALL: parser callbacks are invoked bottom-up with the results of their children (parser link is bounded)',
]
