from pyvc.runner import Prop, Fn, Lem, Ground, Native
from props.rewrite_common import ASSUMPTIONS, SEM_ASSUMPTIONS, SEM_LEMMAS, C09_LEMMAS

_R = 'hpl.rewrite.'
PRED = ['HplPredicateExpression', 'HplVacuousTruth', 'HplContradiction']
PROP = Prop(
    'C14',
    modules=['contracts.rewrite_c10', 'contracts.rewrite_c13'],
    tasks=[
        *[Lem(l) for l in SEM_LEMMAS],
        *[Lem(l) for l in C09_LEMMAS],
        # the safety obligations (tag C14) of the functions under contract for C09 / C10 / C13: on every path only
        # the exception classes their contracts declare can escape
        Fn(_R + 'empty_test', safety_tag='C14'),
        Fn(_R + '_split_and_quantifier', safety_tag='C14'),
        Fn(_R + '_split_and_not', safety_tag='C14'),
        Fn(_R + '_and_presplit_transform', safety_tag='C14'),
        Fn(_R + '_split_and_expr', safety_tag='C14'),
        Fn(_R + 'split_and', safety_tag='C14'),
        Fn(_R + '_refactor_ref_expr', safety_tag='C14'),
        Fn(_R + '_split_ref_operator', safety_tag='C14'),
        Fn(_R + '_split_ref_negation', safety_tag='C14'),
        Fn(_R + '_split_ref_quantifier', safety_tag='C14'),
        *[Fn('hpl.ast.predicates.HplPredicate.negate', classes=PRED, safety_tag='C14')],
        *[Fn('hpl.ast.predicates.HplPredicate.join', classes=PRED, safety_tag='C14')],
    ],
    bounded=[Native('bounded.rewrite_native.totality')],
    level='other',
    explanation='PROVED for the functions under contract (split_and chain, refactor_reference helper chain, negate/join): on '
                'every path no exception other than the declared ones escapes - no AssertionError (the asserts about '
                'simplified shapes hold), AttributeError, IndexError, KeyError; the not/and/or constructor calls cannot raise; '
                'result kinds as documented (list of boolean expressions; pair of expressions; predicate). DECLARED MAY-RAISE, '
                'not excluded: TypeError / HplSanityError from the quantifier and predicate constructors on rebuilt bodies. '
                'BOUNDED ONLY: simplify, the this/var replacements, canonical_form, the public typeguard-checked wrappers, and '
                'everything above on the corpus (every built-in function x argument shapes). Open findings F13, F17.',
    assumptions=ASSUMPTIONS + SEM_ASSUMPTIONS,
    trusted_base=['z3 5.1.0', 'cvc5 1.0.3', 'pyvc symbolic executor', 'bounded.evaluator reference semantics', 'CPython'],
)
