from pyvc.runner import Prop, Fn, Lem, Ground, Native
from props.typing_common import typing_tasks, ASSUMPTIONS

PROP = Prop(
    'C05',
    modules=['contracts.typing_c03'],
    tasks=typing_tasks('C05'),
    bounded=[Native('bounded.native_tasks.contracts_on_constructors'), Native('bounded.typing_native.clash_injection')],
    dep_tags=['C03', 'C16'],
    level='other',
    explanation='for 8 expression constructors and cast(): a TypeError is raised if (and only if) an operand type set is disjoint '
                'from the parameter type (operators, range bounds, field/index access, =/!= sides) - proved from the real '
                'constructor source; function calls, set elements, quantifiers and the same-reference check are under ASSUMED '
                'contracts checked natively; the parser link is bounded (single-clash injection). Open finding F16.',
    assumptions=ASSUMPTIONS,
    trusted_base=['z3 5.1.0', 'cvc5 1.0.3', 'pyvc symbolic executor', 'attrs 24.3'],
)
