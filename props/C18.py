from pyvc.runner import Prop, Fn, Lem, Ground, Native
from props.parser_common import expression_callbacks, property_callbacks, file_callbacks, ASSUMPTIONS

PROP = Prop(
    'C18',
    modules=['contracts.parser_c01'],
    tasks=[*file_callbacks('C18')],
    bounded=[Native('bounded.parser_native.files')],
    dep_tags=['C01'],
    level='other',
    explanation='proved: hpl_file returns its children in order (widths 1, 2, 4), the annotation callbacks build their pairs, metadata() raises HplSyntaxError iff a key repeats and otherwise returns exactly the given mapping (key subsets/orders enumerated). BOUNDED (A-LARK): segmentation of a file into properties and attribution of annotations; metadata attachment in hpl_property (metadata is outside the value model).',
    assumptions=ASSUMPTIONS,
    trusted_base=['z3 5.1.0', 'pyvc symbolic executor', 'lark 1.3.1 (bounded only)'],
)
