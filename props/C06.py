from pyvc.runner import Prop, Fn, Lem, Ground, Native

PROP = Prop(
    'C06',
    modules=[],
    tasks=[],
    bounded=[Native('bounded.parser_native.roundtrip')],
    level='exploration',
    explanation='BOUNDED at this commit: the deciding part of this property lies in third-party code (Lark LALR parser and lexer; '
                'attrs.asdict / json / argparse for the CLI), which no contract on /repo code can decide; the parser callbacks '
                'are being put under contract separately.',
    assumptions=['A-LARK: Lark decides precedence, associativity, layout, accept/reject, longest match from the grammar text',
                 'A-3P: attrs.asdict, json.dumps, argparse'],
    trusted_base=['CPython', 'lark 1.3.1'],
)
