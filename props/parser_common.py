from pyvc.runner import Fn

_T = 'hpl.parser.PropertyTransformer.'
BINOPS = ['+', '-', '*', '/', '**', 'implies', 'iff', 'or', 'and', '=', '!=', '<', '<=', '>', '>=', 'in']


def expression_callbacks(tag):
    sh = 'contracts.parser_c01:'
    return [
        Fn(_T + '_lr_binop', safety_tag=tag, shape=sh + 'shape_children|1'),
        *[Fn(_T + '_lr_binop', safety_tag=tag, shape=sh + 'shape_children|3:' + t) for t in BINOPS],
        *[Fn(_T + n, safety_tag=tag) for n in ('negation', 'negative_number', 'boolean', 'number', 'string', 'variable', 'own_field',
                                               'field_access', 'array_access', 'range_literal')],
    ]


def property_callbacks(tag):
    sh = 'contracts.parser_c01:'
    return [
        *[Fn(_T + n, safety_tag=tag) for n in ('time_amount', 'response', 'prevention', 'requirement', 'existence', 'absence',
                                               'after_until', 'until')],
        *[Fn(_T + 'event_disjunction', safety_tag=tag, shape=sh + f'shape_events|{k}') for k in (2, 3, 4)],
    ]


def file_callbacks(tag):
    sh = 'contracts.parser_c01:'
    return [
        *[Fn(_T + 'hpl_file', safety_tag=tag, shape=sh + f'shape_props|{k}') for k in (1, 2, 4)],
        *[Fn(_T + n, safety_tag=tag) for n in ('metadata_id', 'metadata_title', 'metadata_desc')],
        *[Fn(_T + 'metadata', safety_tag=tag, shape=sh + 'shape_meta|' + ks) for ks in
          ('', 'id', 'title', 'id,title', 'title,id,description', 'id,id', 'title,id,title', 'description,description')],
    ]


ASSUMPTIONS = [
    'A-LARK-CALL: Lark invokes the callback of a rule bottom-up with the results of its children, shaped as the rule says '
    '(the child shapes are the preconditions of the callback contracts)',
    'A-LARK: which tree Lark assigns to a text (precedence, associativity, layout, accept/reject, longest match) is decided by '
    'third-party code from the grammar text: bounded stand-in only',
    'callbacks not under contract yet: hpl_property (metadata attachment), event, quantification, function_call, enum_literal, '
    'number_constant, hpl_predicate (their constructors are under contract in C02/C03)',
]
