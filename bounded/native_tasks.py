"""Generic bounded / validation tasks run natively (CPython) on the real code of /repo."""
from __future__ import annotations

import importlib
import inspect

import z3


def contracts_on_expressions(tier='quick', seed=0, qualnames=(), modules=(), args_for=None, n=None, what=''):
    """bounded stand-in + engine cross-check: every listed contract evaluated natively with every node of
    the expression corpus as receiver (and the argument tuples produced by args_for)"""
    from pyvc.native import native_check
    from pyvc.contracts import CONTRACTS, resolve_qualname, unwrap_function
    from bounded import corpus
    for m in modules:
        importlib.import_module(m)
    n = n or (1500 if tier == 'thorough' else 250)
    exprs = list(corpus.expressions(seed, n, 4 if tier == 'thorough' else 3))
    # predicates stored in events: after the alias rewrite the same object can sit at several positions
    for ev in _events_of(corpus.properties(seed)) + corpus.api_events():
        p = getattr(ev, 'predicate', None)
        if p is not None and hasattr(p, 'expression'):
            exprs.append(p.expression)
    nodes = corpus.all_nodes(exprs)
    names = sorted({'A', 'B', 'i', 'j', 'X', 'zz'})
    cases = 0
    violations = []
    faults = []
    samples = []
    for q in qualnames:
        mod, owner, attr, raw = resolve_qualname(q)
        func = unwrap_function(raw)
        params = list(inspect.signature(func).parameters)
        extra = params[1:]
        for node in nodes:
            if owner is not None and not isinstance(node, owner):
                continue
            argsets = [{}]
            if extra:
                if args_for and q in args_for:
                    argsets = args_for[q](node)
                elif extra == ['alias'] or extra == ['_alias']:
                    argsets = [{extra[0]: a} for a in names]
                else:
                    continue
            for extra_env in argsets:
                env = {params[0]: node}
                env.update(extra_env)
                cases += 1
                r = native_check(q, env)
                if r.get('clause_error'):
                    faults.append(f'{q}: contract clause failed natively: {r["clause_error"][:300]}')
                    if len(faults) > 3:
                        break
                if r.get('valid_input') and r.get('violated'):
                    violations.append({'witness': f'{q}({node!s} ; {extra_env})'[:300],
                                       'what': f'{q} violates {r["violated"]} on {node!s}'[:400]})
                if len(samples) < 2 and r.get('valid_input'):
                    samples.append({'function': q, 'receiver': str(node)[:80], 'args': str(extra_env), 'outcome': r.get('outcome', '')[:120]})
    return {'obligations_n': 0, 'discharged_n': 0, 'violations': violations[:5], 'faults': faults[:3],
            'bounded': {'what': what or 'contracts evaluated natively on the expression corpus',
                        'bound': f'{len(nodes)} distinct nodes from {n} generated + hand-written expressions (depth <= {4 if tier == "thorough" else 3})',
                        'cases': cases, 'distinct': cases, 'exhaustive': False},
            'samples': samples}


def spec_translation(tier='quick', seed=0, specs=(), modules=(), n=None):
    """encoding validation: the z3 definition the prover uses for a spec function evaluates, on concrete
    nodes, to what the same Python text returns natively"""
    from pyvc import classtable
    from pyvc.classtable import TNode, TSeq, TSet, TStr, TBool
    from pyvc.contracts import SPECS
    from pyvc.core import Explorer
    from pyvc.interp import Interp
    from bounded import corpus
    for m in modules:
        importlib.import_module(m)
    ct = classtable.get_table()
    it = Interp(Explorer())
    n = n or (400 if tier == 'thorough' else 60)
    nodes = corpus.all_nodes(corpus.expressions(seed, n, 3))[: (600 if tier == 'thorough' else 120)]
    faults = []
    cases = 0
    samples = []
    for name in specs:
        sp = SPECS[name]
        params, tys, rty = it.spec_sig(sp)
        f = it.declare_spec(sp)
        it.define_spec(sp)
        if not isinstance(tys[0], TNode) or tys[0].sort != 'Expr':
            continue
        extra_sets = [()]
        if len(tys) == 2 and isinstance(tys[1], TStr):
            extra_sets = [('A',), ('i',), ('zz',)]
        elif len(tys) > 1:
            continue
        for node in nodes:
            for extra in extra_sets:
                cases += 1
                try:
                    native = sp.fn(node, *extra)
                except Exception as e:
                    faults.append(f'spec {name} raised natively on {node!s}: {e}')
                    continue
                args = [ct.lift(node, tys[0])] + [z3.StringVal(x) for x in extra]
                expect = it.term(native if not isinstance(native, (set, frozenset)) else _set_box(it, native), rty)
                s = z3.Solver()
                s.set('timeout', 5000)
                s.add(f(*args) != expect)
                r = s.check()
                if r == z3.sat:
                    faults.append(f'spec {name}: z3 definition disagrees with native result on {node!s} {extra}')
                elif r == z3.unknown:
                    pass
                if len(samples) < 2:
                    samples.append({'spec': name, 'arg': str(node)[:80], 'native': str(native)[:80], 'z3_agrees': str(r)})
            if len(faults) > 3:
                break
    return {'obligations_n': 0, 'discharged_n': 0, 'violations': [], 'faults': faults[:3],
            'bounded': {'what': 'spec-function translation cross-check (z3 definition vs native Python)',
                        'bound': f'{len(nodes)} nodes x {len(specs)} specs', 'cases': cases, 'distinct': cases,
                        'exhaustive': False},
            'samples': samples}


def _set_box(it, s):
    from pyvc.values import Box
    return Box('set', items=sorted(s))


def _events_of(props):
    evs = []
    for p in props:
        for e in (p.scope.activator, p.scope.terminator, p.pattern.trigger, p.pattern.behaviour):
            if e is not None:
                evs.append(e)
    out = []
    for e in evs:
        stack = [e]
        while stack:
            x = stack.pop()
            out.append(x)
            if hasattr(x, 'event1'):
                stack.extend([x.event2, x.event1])
    return out


def contracts_on_events(tier='quick', seed=0, qualnames=(), modules=()):
    """event- and predicate-level contracts evaluated natively on every event of the property corpus"""
    from pyvc.native import native_check
    from pyvc.contracts import resolve_qualname, unwrap_function
    from bounded import corpus
    for m in modules:
        importlib.import_module(m)
    events = _events_of(corpus.properties(seed)) + corpus.api_events()
    preds = [e.predicate for e in events if hasattr(e, 'predicate')]
    from hpl.ast.predicates import HplPredicateExpression
    for e in corpus.expressions(seed, 200, 3):
        if e.can_be_bool:
            try:
                preds.append(HplPredicateExpression(e))
            except Exception:
                pass
    names = ['A', 'B', 'X', 'zz']
    cases = 0
    violations, faults, samples = [], [], []
    for q in qualnames:
        mod, owner, attr, raw = resolve_qualname(q)
        func = unwrap_function(raw)
        params = list(inspect.signature(func).parameters)
        pool = [x for x in events + preds if isinstance(x, owner)]
        for recv in pool:
            argsets = [{}] if len(params) == 1 else [{params[1]: a} for a in names]
            for extra in argsets:
                env = {params[0]: recv}
                env.update(extra)
                cases += 1
                r = native_check(q, env)
                if r.get('clause_error'):
                    faults.append(f'{q}: contract clause failed natively: {r["clause_error"][:300]}')
                if r.get('valid_input') and r.get('violated'):
                    violations.append({'witness': f'{q}({recv!s};{extra})'[:300],
                                       'what': f'{q} violates {r["violated"]} on {recv!s}'[:400]})
                if len(samples) < 2:
                    samples.append({'function': q, 'receiver': str(recv)[:80], 'outcome': r.get('outcome', '')[:100]})
    return {'obligations_n': 0, 'discharged_n': 0, 'violations': violations[:5], 'faults': faults[:3],
            'bounded': {'what': 'event/predicate contracts evaluated natively on the property corpus',
                        'bound': f'{len(events)} events, {len(preds)} predicates', 'cases': cases, 'distinct': cases,
                        'exhaustive': False}, 'samples': samples}


def own_field_check(tier='quick', seed=0):
    """C15 (bounded part): check_some_self_references() passes iff the predicate references the
    current message - on parser-built predicates (the proof of this clause is not built)"""
    from bounded import corpus
    from specs.tree import mentions_this
    from hpl.ast.predicates import HplPredicateExpression
    from hpl.errors import HplSanityError
    n = 2000 if tier == 'thorough' else 300
    cases = 0
    violations = []
    for e in corpus.expressions(seed, n, 3):
        if not e.can_be_bool:
            continue
        try:
            p = HplPredicateExpression(e)
        except Exception:
            continue
        cases += 1
        try:
            p.check_some_self_references()
            ok = True
        except HplSanityError:
            ok = False
        if ok != mentions_this(p.expression):
            violations.append({'witness': f'own_field({p!s})', 'what': f'own-field check {"passes" if ok else "fails"} on {p!s}'})
    return {'obligations_n': 0, 'discharged_n': 0, 'violations': violations[:5], 'faults': [],
            'bounded': {'what': 'own-field check vs "references the current message" on parsed predicates',
                        'bound': f'{cases} predicates (depth <= 3)', 'cases': cases, 'distinct': cases, 'exhaustive': False},
            'samples': [{'note': 'check_some_self_references compared with mentions_this'}]}


def contracts_on_constructors(tier='quick', seed=0, modules=('contracts.typing_c03',)):
    """every expression-constructor contract evaluated natively: re-construction of corpus nodes from their own
    fields, and constructions with one child replaced by a node of another kind (type clashes, narrowing)"""
    import copy
    import random
    import attrs
    from pyvc.native import native_check
    from pyvc.contracts import CONTRACTS
    from bounded import corpus
    for m in modules:
        importlib.import_module(m)
    rnd = random.Random(seed)
    n = 1200 if tier == 'thorough' else 250
    nodes = corpus.all_nodes(corpus.expressions(seed, n, 3))
    by_cls = {}
    for x in nodes:
        by_cls.setdefault(type(x).__name__, []).append(x)
    cases = 0
    violations, faults, samples = [], [], []
    for cname, group in by_cls.items():
        q = f'hpl.ast.expressions.{cname}.__init__'
        if q not in CONTRACTS:
            continue
        for node in group:
            fields = [a for a in attrs.fields(type(node)) if a.init and a.name != 'data_type']
            base = {a.name: getattr(node, a.name) for a in fields}
            variants = [dict(base)]
            for a in fields:
                v = base[a.name]
                if hasattr(v, 'data_type'):
                    for _ in range(2):
                        alt = dict(base)
                        alt[a.name] = rnd.choice(nodes)
                        variants.append(alt)
                elif isinstance(v, tuple) and v and hasattr(v[0], 'data_type'):
                    alt = dict(base)
                    alt[a.name] = v[:-1] + (rnd.choice(nodes),)
                    variants.append(alt)
            for env in variants:
                env = copy.deepcopy(env)
                env['data_type'] = None
                cases += 1
                r = native_check(q, env)
                if r.get('clause_error'):
                    faults.append(f'{q}: contract clause failed natively: {r["clause_error"][:300]}')
                if r.get('valid_input') and r.get('violated'):
                    violations.append({'witness': f'{cname}({ {k: str(v) for k, v in env.items()} })'[:300],
                                       'what': f'{cname} construction violates {r["violated"]}: {r.get("outcome", "")[:160]}'})
                if len(samples) < 2 and r.get('valid_input'):
                    samples.append({'constructor': cname, 'args': {k: str(v)[:40] for k, v in env.items()}, 'outcome': r.get('outcome', '')[:100]})
            if len(faults) > 3:
                break
    return {'obligations_n': 0, 'discharged_n': 0, 'violations': violations[:6], 'faults': faults[:3],
            'bounded': {'what': 'constructor contracts (raise conditions, result value, well-typedness) evaluated natively',
                        'bound': f'{len(nodes)} corpus nodes: self-reconstruction + 2 cross-kind child replacements per child slot',
                        'cases': cases, 'distinct': cases, 'exhaustive': False},
            'samples': samples}


def predicate_constructor_contract(tier='quick', seed=0):
    """the ASSUMED contract of HplPredicateExpression.__init__ (C13) evaluated natively on every expression node of
    the corpus (boolean or not): accepted => stores the condition narrowed to BOOL; raises only TypeError"""
    import copy
    from pyvc.native import native_check
    from bounded import corpus
    importlib.import_module('contracts.rewrite_c13')
    nodes = corpus.all_nodes(corpus.expressions(seed, 1200 if tier == 'thorough' else 300, 3))
    cases = 0
    violations, samples = [], []
    for n in nodes:
        cases += 1
        r = native_check('hpl.ast.predicates.HplPredicateExpression.__init__', {'expression': copy.deepcopy(n)})
        if r.get('valid_input') and (r.get('violated') or r.get('clause_error')):
            if len(violations) < 5:
                violations.append({'witness': f'predctor:{n}', 'what': f'HplPredicateExpression({n}): {r.get("outcome")} violates '
                                   f'{r.get("violated") or r.get("clause_error")}'[:400]})
        elif len(samples) < 2:
            samples.append({'call': f'HplPredicateExpression({n})', 'outcome': str(r.get('outcome'))[:80]})
    return {'obligations_n': 0, 'discharged_n': 0, 'violations': violations, 'faults': [],
            'bounded': {'what': 'assumed contract of HplPredicateExpression.__init__ evaluated natively',
                        'bound': f'{len(nodes)} distinct expression nodes', 'cases': cases, 'distinct': cases, 'exhaustive': False},
            'samples': samples}
