"""Bounded stand-ins for the parser-side properties C01, C06, C07, C18, C19 (the deciding part of these
properties lies in Lark - assumption A-LARK - and in attrs.asdict / json / argparse: not functions of /repo)."""
from __future__ import annotations

import io
import itertools
import json
import math
import random
import re
import sys

# ------------------------------------------------------------------------------------------------
# abstract trees -> text with layout/parenthesisation variants, and -> expected AST built through the API
# ------------------------------------------------------------------------------------------------

PREC = {'implies': 1, 'iff': 1, 'or': 2, 'and': 3, 'rel': 5, '+': 6, '-': 6, '*': 7, '/': 7, '**': 8}
REL = ['=', '!=', '<', '<=', '>', '>=', 'in']


def gen_tree(rnd, d, want):
    """abstract tree: tuples ('num', text) ('field', name) ('var', name) ('bin', op, l, r) ('not', x) ('neg', x)
    ('call', f, x) ('set', [..]) ('range', l, r, exl, exr) ('q', kind, var, dom, body) ('bool', b) ('str', s)
    ('idx', base, i) ('dot', base, name)"""
    if want == 'num':
        if d <= 0 or rnd.random() < 0.3:
            k = rnd.random()
            if k < 0.4:
                return ('num', rnd.choice(['0', '1', '2', '10', '2.5', '0.125']))
            if k < 0.7:
                return ('field', rnd.choice(['x', 'y', 'notx', 'inner', 'E1', 'toy', 'orbit', 'android']))
            if k < 0.8:
                return ('dot', ('var', 'A'), rnd.choice(['n', 'z']))
            if k < 0.9:
                return ('idx', ('field', 'xs'), gen_tree(rnd, 0, 'num'))
            return ('const', rnd.choice(['PI', 'E']))
        k = rnd.random()
        if k < 0.55:
            return ('bin', rnd.choice(['+', '-', '*', '/', '**']), gen_tree(rnd, d - 1, 'num'), gen_tree(rnd, d - 1, 'num'))
        if k < 0.7:
            return ('neg', gen_tree(rnd, d - 1, 'num'))
        if k < 0.85:
            return ('call', rnd.choice(['abs', 'sqrt', 'floor']), gen_tree(rnd, d - 1, 'num'))
        return ('call', 'len', gen_coll(rnd, d - 1))
    # boolean
    if d <= 0 or rnd.random() < 0.2:
        k = rnd.random()
        if k < 0.6:
            return ('bin', rnd.choice(REL[:6]), gen_tree(rnd, 0, 'num'), gen_tree(rnd, 0, 'num'))
        if k < 0.8:
            return ('field', rnd.choice(['p', 'q', 'ok']))
        return ('bool', rnd.choice([True, False]))
    k = rnd.random()
    if k < 0.4:
        return ('bin', rnd.choice(['and', 'or', 'implies', 'iff']), gen_tree(rnd, d - 1, 'bool'), gen_tree(rnd, d - 1, 'bool'))
    if k < 0.5:
        return ('not', gen_tree(rnd, d - 1, 'bool'))
    if k < 0.7:
        return ('bin', rnd.choice(REL[:6]), gen_tree(rnd, d - 1, 'num'), gen_tree(rnd, d - 1, 'num'))
    if k < 0.8:
        return ('bin', 'in', gen_tree(rnd, d - 1, 'num'), gen_coll(rnd, d - 1))
    v = rnd.choice(['i', 'j'])
    body = ('bin', rnd.choice(['and', 'or']), ('bin', '>', ('var', v), gen_tree(rnd, 0, 'num')), gen_tree(rnd, d - 1, 'bool'))
    return ('q', rnd.choice(['forall', 'exists']), v, gen_coll(rnd, d - 1), body)


def gen_coll(rnd, d):
    k = rnd.random()
    if k < 0.4:
        return ('set', [gen_tree(rnd, max(d, 0), 'num') for _ in range(rnd.randint(1, 3))])
    if k < 0.8:
        return ('range', gen_tree(rnd, max(d, 0), 'num'), gen_tree(rnd, max(d, 0), 'num'), rnd.random() < 0.5, rnd.random() < 0.5)
    return ('field', rnd.choice(['xs', 'ys']))


def prec_of(t):
    if t[0] == 'bin':
        return PREC['rel'] if t[1] in REL else PREC[t[1]]
    if t[0] in ('not', 'q'):
        return 4
    return 9


def render(t, rnd, mode):
    """mode: 'min' minimal parentheses, 'full' every operator parenthesised, 'extra' redundant parentheses"""
    sp = (lambda: ' ') if rnd is None else (lambda: rnd.choice([' ', '  ', '\n ', '\t']))

    def wrap(s, need):
        if need or mode == 'full' or (mode == 'extra' and rnd is not None and rnd.random() < 0.4):
            return '(' + s + ')'
        return s

    def r(t, ctx_prec, side):
        k = t[0]
        if k == 'num' or k == 'const':
            return t[1]
        if k == 'bool':
            return 'True' if t[1] else 'False'
        if k == 'str':
            return '"' + t[1] + '"'
        if k == 'field':
            return t[1]
        if k == 'var':
            return '@' + t[1]
        if k == 'dot':
            return r(t[1], 9, 'l') + '.' + t[2]
        if k == 'idx':
            return r(t[1], 9, 'l') + '[' + r(t[2], 0, 'l') + ']'
        if k == 'call':
            return t[1] + '(' + r(t[2], 0, 'l') + ')'
        if k == 'set':
            return '{' + (',' + sp()).join(r(x, 0, 'l') for x in t[1]) + '}'
        if k == 'range':
            return ('![' if t[3] else '[') + r(t[1], 0, 'l') + sp() + 'to' + sp() + r(t[2], 0, 'l') + (']!' if t[4] else ']')
        if k == 'neg':
            inner = r(t[1], 9, 'r')
            if t[1][0] in ('bin', 'neg') and not inner.startswith('('):
                inner = '(' + inner + ')'
            return wrap('-' + inner, ctx_prec > 8)
        if k == 'not':
            s = 'not' + sp() + r(t[1], 4, 'r')
            return wrap(s, ctx_prec > 4)
        if k == 'q':
            dom = r(t[3], 9, 'l')
            s = t[1] + sp() + t[2] + sp() + 'in' + sp() + dom + ':' + sp() + r(t[4], 5, 'r')
            if not s.endswith(')') and t[4][0] == 'bin' and prec_of(t[4]) < 4:
                pass
            return wrap(s, ctx_prec > 3)
        if k == 'bin':
            p = prec_of(t)
            if t[1] in REL:
                s = r(t[2], 6, 'l') + sp() + t[1] + sp() + r(t[3], 6, 'r')
                return wrap(s, ctx_prec >= p)
            # left-associative chains: left child at same precedence needs no parentheses, right child does
            s = r(t[2], p, 'l') + sp() + t[1] + sp() + r(t[3], p + 0.5, 'r')
            need = ctx_prec > p or (ctx_prec == p and side == 'r') or ctx_prec == p + 0.5 and False
            if ctx_prec > p:
                need = True
            return wrap(s, need)
        raise ValueError(t)
    return r(t, 0, 'l')


def build(t):
    """expected AST through the public constructors (operand casts as the grammar actions do)"""
    from hpl.ast import (HplLiteral, HplFieldAccess, HplThisMessage, HplVarReference, HplBinaryOperator, HplUnaryOperator,
                         HplFunctionCall, HplSet, HplRange, HplQuantifier, HplArrayAccess)
    from hpl.ast.expressions import _convert_binary_operator, _convert_unary_operator
    from hpl.types import DataType
    k = t[0]
    if k == 'num':
        try:
            return HplLiteral(t[1], int(t[1]))
        except ValueError:
            return HplLiteral(t[1], float(t[1]))
    if k == 'const':
        return HplLiteral(t[1], {'PI': math.pi, 'E': math.e}[t[1]])
    if k == 'bool':
        return HplLiteral('True' if t[1] else 'False', t[1])
    if k == 'str':
        s = '"' + t[1] + '"'
        return HplLiteral(s, s)
    if k == 'field':
        return HplFieldAccess(HplThisMessage(), t[1])
    if k == 'var':
        return HplVarReference('@' + t[1])
    if k == 'dot':
        return HplFieldAccess(build(t[1]).cast(DataType.MESSAGE), t[2])
    if k == 'idx':
        return HplArrayAccess(build(t[1]).cast(DataType.ARRAY), build(t[2]).cast(DataType.NUMBER))
    if k == 'call':
        return HplFunctionCall(t[1], (build(t[2]),))
    if k == 'set':
        return HplSet([build(x) for x in t[1]])
    if k == 'range':
        return HplRange(build(t[1]), build(t[2]), exclude_min=t[3], exclude_max=t[4])
    if k == 'neg':
        op = _convert_unary_operator('-')
        return HplUnaryOperator(op, build(t[1]).cast(op.parameter))
    if k == 'not':
        op = _convert_unary_operator('not')
        return HplUnaryOperator(op, build(t[1]).cast(op.parameter))
    if k == 'q':
        return HplQuantifier(t[1], t[2], build(t[3]), build(t[4]))
    if k == 'bin':
        op = _convert_binary_operator(t[1])
        return HplBinaryOperator(op, build(t[2]).cast(op.parameter1), build(t[3]).cast(op.parameter2))
    raise ValueError(t)


def parse_trees(tier='quick', seed=0):
    """C01 (bounded): parsed AST == expected AST for minimal / full / redundant parenthesisation and random layout;
    operator identity, operand order, precedence, left associativity, range exclusivity, literals, chains,
    quantifier binding, names that begin with a keyword; property-level roles, disjunction order, ms conversion"""
    from hpl.parser import expression_parser, property_parser
    from hpl.errors import HplSyntaxError
    ep = expression_parser()
    pp = property_parser()
    rnd = random.Random(seed)
    n = 1500 if tier == 'thorough' else 250
    cases = 0
    violations = []
    known = {}
    kw_names = ('notx', 'E1', 'toy', 'orbit', 'android', 'inner')
    neutral = {'notx': 'xa', 'E1': 'xb', 'toy': 'xc', 'orbit': 'xd', 'android': 'xe', 'inner': 'xf'}

    def rename(t):
        if isinstance(t, tuple):
            if t[0] == 'field' and t[1] in neutral:
                return ('field', neutral[t[1]])
            return tuple(rename(x) for x in t)
        if isinstance(t, list):
            return [rename(x) for x in t]
        return t

    def is_f7(t, mode):
        """the same tree with neutral names parses to the expected AST: the failure is due to the keyword prefix"""
        t2 = rename(t)
        try:
            return ep.parse(render(t2, None, 'full' if mode != 'min' else 'min')) == build(t2)
        except Exception:
            return False
    for it in range(n):
        t = gen_tree(rnd, rnd.randint(1, 3), rnd.choice(['bool', 'num']))
        try:
            expected = build(t)
        except (TypeError, Exception):
            continue
        for mode in ('min', 'full', 'extra'):
            text = render(t, rnd if mode == 'extra' else None, mode)
            cases += 1
            try:
                got = ep.parse(text)
            except Exception as x:
                if any(k in text for k in kw_names) and is_f7(t, mode):
                    known['F7'] = known.get('F7', 0) + 1
                elif len(violations) < 6:
                    violations.append({'witness': text, 'what': f'well-formed text `{text}` ({mode} parentheses) is rejected: {type(x).__name__}: {str(x)[:100]}'})
                continue
            if got != expected:
                if any(k in text for k in kw_names) and is_f7(t, mode):
                    known['F7'] = known.get('F7', 0) + 1
                elif len(violations) < 6:
                    violations.append({'witness': text, 'what': f'`{text}` parses to `{got}` but the grammar assigns `{expected}`'[:400]})
    # property level: roles, disjunction order, time bounds
    from hpl.ast.properties import PatternType, ScopeType
    texts = []
    for scope, st in (('globally', ScopeType.GLOBAL), ('after s0', ScopeType.AFTER), ('until u0', ScopeType.UNTIL), ('after s0 until u0', ScopeType.AFTER_UNTIL)):
        for pat, pt, trig, beh in (('no b0', PatternType.ABSENCE, None, 'b0'), ('some b0', PatternType.EXISTENCE, None, 'b0'),
                                    ('t0 causes b0', PatternType.RESPONSE, 't0', 'b0'), ('t0 forbids b0', PatternType.PREVENTION, 't0', 'b0'),
                                    ('b0 requires t0', PatternType.REQUIREMENT, 't0', 'b0')):
            for bound, secs in (('', float('inf')), (' within 3 s', 3.0), (' within 250 ms', 0.25), (' within 1.5 s', 1.5)):
                texts.append((f'{scope}: {pat}{bound}', st, pt, trig, beh, secs))
    for text, st, pt, trig, beh, secs in texts:
        cases += 1
        try:
            P = pp.parse(text)
        except Exception as x:
            violations.append({'witness': text, 'what': f'`{text}` rejected: {x}'[:200]})
            continue
        ok = P.scope.scope_type is st and P.pattern.pattern_type is pt and P.pattern.behaviour.name == beh \
            and (P.pattern.trigger.name if P.pattern.trigger is not None else None) == trig and P.pattern.max_time == secs \
            and (P.scope.activator.name if P.scope.activator is not None else None) == ('s0' if 'after' in text else None) \
            and (P.scope.terminator.name if P.scope.terminator is not None else None) == ('u0' if 'until' in text else None)
        if not ok and len(violations) < 6:
            violations.append({'witness': text, 'what': f'`{text}` parsed to `{P}` (roles / kinds / time bound differ from the grammar)'})
    for names in (['a', 'b'], ['a', 'b', 'c'], ['c', 'a', 'b', 'd']):
        text = 'globally: no (' + ' or '.join(names) + ')'
        cases += 1
        P = pp.parse(text)
        got = [e.name for e in P.pattern.behaviour.simple_events()]
        if got != names:
            violations.append({'witness': text, 'what': f'disjunction members/order {got} differ from source order {names}'})
    for k, c in sorted(known.items()):
        violations.append({'witness': k, 'what': f'{c} texts with a name that begins with a keyword (notx, E1, toy, orbit, ...) are rejected or mis-parsed'})
    return {'obligations_n': 0, 'discharged_n': 0, 'violations': violations, 'faults': [],
            'bounded': {'what': 'parsed AST vs expected AST (three parenthesisations, random layout); property roles and bounds',
                        'bound': f'{n} random abstract trees to depth 3 x 3 renderings; 4 scopes x 5 patterns x 4 bounds', 'cases': cases,
                        'distinct': cases, 'exhaustive': False, 'known_classes': known},
            'samples': [{'text': 'x + y * 2 > 1 and p', 'tree': '(((x + (y * 2)) > 1) and p)'}]}


# ------------------------------------------------------------------------------------------------
# C06 round trip
# ------------------------------------------------------------------------------------------------

def roundtrip(tier='quick', seed=0):
    from bounded import corpus
    from hpl.parser import expression_parser, property_parser, specification_parser, predicate_parser
    ep, pp, sp, prp = expression_parser(), property_parser(), specification_parser(), predicate_parser()
    rnd = random.Random(seed)
    cases = 0
    violations = []
    known = {}

    def check(obj, parser, what):
        nonlocal cases
        cases += 1
        s = str(obj)
        try:
            back = parser.parse(s)
        except Exception as x:
            if 'NAN' in s or 'nan' in s:
                known['F6'] = known.get('F6', 0) + 1
            elif len(violations) < 6:
                violations.append({'witness': s[:200], 'what': f'printed {what} `{s[:200]}` does not parse: {type(x).__name__}'})
            return
        if back != obj or hash(back) != hash(obj) or str(back) != s:
            if 'NAN' in s:
                known['F6'] = known.get('F6', 0) + 1
            elif len(violations) < 6:
                violations.append({'witness': s[:200], 'what': f'printed {what} `{s[:160]}` parses back to a different AST `{str(back)[:160]}`'})
    n = 1200 if tier == 'thorough' else 200
    for e in corpus.expressions(seed, n, 3):
        check(e, ep, 'expression')
    for t in ['x = NAN', 'x < INF', 'x > PI * E', '(not a) = b', 'not a = b', '(not p) in {True, q}', 'not (not p)', '(-x) ** 2 > 0', '-(x ** 2) < 0',
              '(x > 1) = (y > 2)', 'not (forall i in xs: @i > 0)', '(forall i in xs: @i > 0) and p', '-x.y + 1 > 0', '(p implies q) implies r', 'p implies (q implies r)']:
        check(ep.parse(t), ep, 'expression')
    for text in list(corpus.PROPERTY_TEXTS) + ['globally: no a as A', 'after p as P: no b {x > @P.x}', 'globally: some /ns/topic as T {x > 0} within 0 s',
                 'after a as A until b {y = @A.y}: c as C causes d {z > @C.z and z < @A.z} within 20 ms']:
        P = pp.parse(text)
        check(P, pp, 'property')
        check(P.pattern.behaviour.predicate, prp, 'predicate') if hasattr(P.pattern.behaviour, 'predicate') else None
    for tb in ['0 s', '0 ms', '0.0 s', '0.07233 s', '72.33 ms', '1 ms', '999 ms', '1000 ms', '0.001 s', '12345.678 s', '1e3 s', '3 s']:
        try:
            P = pp.parse(f'globally: a causes b within {tb}')
        except Exception:
            continue
        check(P, pp, 'property')
    spec = sp.parse('\n'.join(corpus.PROPERTY_TEXTS[:5]))
    check(spec, sp, 'specification')
    # different ASTs print differently
    seen = {}
    for e in corpus.expressions(seed, n, 3):
        s = str(e)
        if s in seen and seen[s] != e and len(violations) < 6:
            violations.append({'witness': s[:200], 'what': f'two different ASTs print as `{s[:200]}`'})
        seen[s] = e
    for k, c in sorted(known.items()):
        violations.append({'witness': k, 'what': f'{c} ASTs with the NAN constant are not equal to themselves after print/parse (nan != nan)'})
    return {'obligations_n': 0, 'discharged_n': 0, 'violations': violations, 'faults': [],
            'bounded': {'what': 'parse(str(ast)) == ast, equal hash, str idempotent, injective printing', 'bound': f'{n} expressions, property corpus, 9 time bounds, a specification',
                        'cases': cases, 'distinct': cases, 'exhaustive': False, 'known_classes': known},
            'samples': [{'ast': '((x + 1) > 2)', 'reparsed_equal': True}]}


# ------------------------------------------------------------------------------------------------
# C07 fuzz
# ------------------------------------------------------------------------------------------------

TOKENS = ['globally', 'after', 'until', ':', 'no', 'some', 'causes', 'requires', 'forbids', 'within', 'as', 'or', 'and', 'not',
          'implies', 'iff', 'forall', 'exists', 'in', 'to', '{', '}', '(', ')', '[', ']', '![', ']!', ',', '.', '@A', '@', 'x', 'y',
          'a', 'b', '1', '2.5', '"s"', '+', '-', '*', '/', '**', '=', '!=', '<', '<=', '>', '>=', 'True', 'False', 'PI', 'INF', 'NAN',
          'ms', 's', '#', 'id', 'title', 'description', 'abs', 'len', 'nosuchfunction', '\n', 'ç', '\x00', '𝔘']


def fuzz(tier='quick', seed=0):
    """C07 (bounded): every entry point returns or raises a documented error; results do not depend on call order"""
    from hpl.parser import (specification_parser, property_parser, predicate_parser, condition_parser, expression_parser)
    from hpl.errors import HplSyntaxError, HplSanityError
    from bounded import corpus
    parsers = {'specification': specification_parser(), 'property': property_parser(), 'predicate': predicate_parser(),
               'condition': condition_parser(), 'expression': expression_parser()}
    allowed = (HplSyntaxError, HplSanityError, TypeError, ValueError)
    rnd = random.Random(seed)
    n = 20000 if tier == 'thorough' else 1500
    valid = list(corpus.PROPERTY_TEXTS) + corpus.HANDWRITTEN + ['{ x > 1 }', '{ p and q }']
    inputs = []
    for _ in range(n):
        k = rnd.random()
        if k < 0.3:
            inputs.append(' '.join(rnd.choice(TOKENS) for _ in range(rnd.randint(0, 12))))
        elif k < 0.4:
            inputs.append(''.join(chr(rnd.choice([rnd.randint(0, 127), rnd.randint(128, 0x2fff), rnd.randint(0x1f300, 0x1f3ff)])) for _ in range(rnd.randint(0, 20))))
        else:
            toks = re.findall(r'\S+|\s+', rnd.choice(valid))
            for _ in range(rnd.choice([1, 2])):
                op = rnd.random()
                i = rnd.randrange(len(toks)) if toks else 0
                if op < 0.34 and toks:
                    del toks[i]
                elif op < 0.67:
                    toks.insert(i, rnd.choice(TOKENS))
                elif toks:
                    toks[i] = rnd.choice(TOKENS)
            inputs.append(''.join(toks))
    for depth in (5, 20, 40):
        inputs.append('(' * depth + 'x' + ')' * depth + ' > 0')
        inputs.append('not ' * depth + 'p')
    cases = 0
    violations = []
    first = {}
    for text in inputs:
        for name, p in parsers.items():
            cases += 1
            try:
                r = ('ok', str(p.parse(text)))
            except allowed as x:
                r = ('err', type(x).__name__)
            except RecursionError:
                r = ('err', 'RecursionError')
                if len(violations) < 6:
                    violations.append({'witness': f'{name}:{text[:60]!r}', 'what': f'{name} parser hits the recursion limit on `{text[:60]!r}`'})
            except Exception as x:
                r = ('err', type(x).__name__)
                if len(violations) < 6:
                    violations.append({'witness': f'{name}:{text[:80]!r}', 'what': f'{name} parser leaks {type(x).__name__} on {text[:80]!r}: {str(x)[:100]}'})
            first[(name, text)] = r
    # statelessness against a FRESH parser: annotated / plain valid texts right after failing inputs on the long-lived parser
    from hpl.parser import property_parser as _pp, specification_parser as _sp
    seqs = [('# id: p0\n# title: 42\nglobally: no a', '# id: p1\nglobally: no a'),
            ('# id: p0\n# id: p0\nglobally: no a', '# id: p0\nglobally: no a'),
            ('# title: "t"\n# description: "d"\nglobally: no', '# title: "t2"\n# description: "d2"\nglobally: some b'),
            ('globally: no a {x +', 'globally: no a {x + 1 > 0}'), ('after a as A: no', 'after a as A: no b {x = @A.x}')]
    for name, mk in (('property', _pp), ('specification', _sp)):
        long_lived = parsers[name]
        for bad_text, good_text in seqs:
            cases += 1
            try:
                long_lived.parse(bad_text)
            except Exception:
                pass
            try:
                got = ('ok', str(long_lived.parse(good_text)), )
                gm = long_lived.parse(good_text)
                got = ('ok', str(gm), str(getattr(gm, 'metadata', None) or [p.metadata for p in getattr(gm, 'properties', [])]))
            except Exception as x:
                got = ('err', type(x).__name__)
            try:
                fm = mk().parse(good_text)
                exp = ('ok', str(fm), str(getattr(fm, 'metadata', None) or [p.metadata for p in getattr(fm, 'properties', [])]))
            except Exception as x:
                exp = ('err', type(x).__name__)
            if got != exp and len(violations) < 6:
                violations.append({'witness': f'state:{name}:{good_text!r}', 'what': f'{name} parser gives {got} for {good_text!r} after the failing input {bad_text!r}; a fresh parser gives {exp}'[:400]})
    # statelessness: replay a shuffled subset on the same parser objects
    sample = rnd.sample(inputs, min(len(inputs), 400))
    rnd.shuffle(sample)
    for text in sample:
        for name, p in parsers.items():
            cases += 1
            try:
                r = ('ok', str(p.parse(text)))
            except Exception as x:
                r = ('err', type(x).__name__)
            if r != first[(name, text)] and len(violations) < 6:
                violations.append({'witness': f'state:{name}:{text[:60]!r}', 'what': f'{name} parser gives {r} for {text[:60]!r} after other inputs, {first[(name, text)]} before'})
    return {'obligations_n': 0, 'discharged_n': 0, 'violations': violations, 'faults': [],
            'bounded': {'what': 'documented exceptions only; same result regardless of call order', 'bound': f'{len(inputs)} strings (token soups, unicode, 1-2 token mutations of valid texts, nesting to 40) x 5 entry points',
                        'cases': cases, 'distinct': cases, 'exhaustive': False},
            'samples': [{'input': 'globally: no a {x >', 'result': 'HplSyntaxError'}]}


# ------------------------------------------------------------------------------------------------
# C18 files
# ------------------------------------------------------------------------------------------------

def files(tier='quick', seed=0):
    from hpl.parser import specification_parser, property_parser
    from hpl.errors import HplSyntaxError
    from bounded import corpus
    sp, pp = specification_parser(), property_parser()
    rnd = random.Random(seed)
    good = list(corpus.PROPERTY_TEXTS)
    bad = [('globally: no', HplSyntaxError), ('globally: a causes', HplSyntaxError), ('after a: no b {x + 1}', TypeError),
           ('globally: no a {y = @Z.x}', None), ('globally: (a or a) causes b', None)]
    annots = [('id', 'p{}'), ('title', '"title {}"'), ('description', '"desc {}"')]
    cases = 0
    violations = []
    n = 400 if tier == 'thorough' else 80
    for it in range(n):
        k = rnd.randint(1, 6)
        members = []
        for i in range(k):
            text = rnd.choice(good)
            subset = [a for a in annots if rnd.random() < 0.6]
            rnd.shuffle(subset)
            meta = {('id' if key == 'id' else key): (val.format(it * 10 + i) if key == 'id' else val.format(it * 10 + i)) for key, val in subset}
            head = ''.join(f'# {key}: {val}{rnd.choice([" ", chr(10), "  " + chr(10)])}' for key, val in meta.items())
            members.append((head + text, text, meta))
        sep = lambda: rnd.choice(['\n', '\n\n', '  \n\t\n', ' '])
        doc = sep().join(m[0] for m in members) + rnd.choice(['', '\n'])
        cases += 1
        try:
            spec = sp.parse(doc)
        except Exception as x:
            if len(violations) < 6:
                violations.append({'witness': doc[:200], 'what': f'file of {k} valid properties rejected: {type(x).__name__}: {str(x)[:100]}'})
            continue
        if len(spec.properties) != k:
            violations.append({'witness': doc[:200], 'what': f'file of {k} properties yields {len(spec.properties)}'})
            continue
        for got, (full, text, meta) in zip(spec.properties, members):
            alone = pp.parse(full)
            exp_meta = {key: (val if key == 'id' else val) for key, val in meta.items()}
            if got != alone or got.metadata != alone.metadata or set(got.metadata) != set(exp_meta):
                if len(violations) < 6:
                    violations.append({'witness': full[:200], 'what': f'member `{text}` of a file differs from parsing it alone, or carries foreign annotations: {got.metadata} vs {alone.metadata}'})
        # one invalid member at a random position: whole file rejected with that member's error class
        btext, _ = rnd.choice(bad)
        try:
            pp.parse(btext)
            continue
        except Exception as bx:
            bcls = type(bx)
        pos = rnd.randrange(k + 1)
        parts = [m[0] for m in members]
        parts.insert(pos, btext)
        cases += 1
        try:
            sp.parse('\n'.join(parts))
            violations.append({'witness': btext, 'what': f'a file containing the invalid property `{btext}` is accepted'})
        except Exception as x:
            if type(x) is not bcls and len(violations) < 6:
                violations.append({'witness': btext, 'what': f'file with invalid member `{btext}` raises {type(x).__name__}, the member alone raises {bcls.__name__}'})
    for doc, why in (('# id: a\n# id: a\nglobally: no a', 'duplicate key with the same value'), ('globally: no a\n# title: "t"\n# title: "t"\nglobally: no b', 'duplicate key in the second property'),
                     ('', 'empty file'), ('   \n', 'blank file'), ('# id: a\n# id: b\nglobally: no a', 'duplicate key'),
                     ('# name: a\nglobally: no a', 'unknown key'), ('# id: a\n', 'annotation without property')):
        cases += 1
        try:
            sp.parse(doc)
            violations.append({'witness': why, 'what': f'{why} is accepted'})
        except HplSyntaxError:
            pass
        except Exception as x:
            violations.append({'witness': why, 'what': f'{why} raises {type(x).__name__} instead of a syntax error'})
    return {'obligations_n': 0, 'discharged_n': 0, 'violations': violations[:6], 'faults': [],
            'bounded': {'what': 'file == sequence of its annotated properties; invalid member rejects the file with the same class',
                        'bound': f'{n} files of 1..6 properties, random annotation subsets/orders/separators, one invalid member inserted',
                        'cases': cases, 'distinct': cases, 'exhaustive': False},
            'samples': [{'file': '# id: p1\\nglobally: no a\\n\\nglobally: some b', 'properties': 2}]}


# ------------------------------------------------------------------------------------------------
# C19 CLI
# ------------------------------------------------------------------------------------------------

def _strict_loads(s):
    def bad(c):
        raise ValueError(f'non-standard JSON constant {c}')
    return json.loads(s, parse_constant=bad)


def _mirror(obj):
    """independent walk: what the JSON document must contain, field for field"""
    import attrs
    import enum
    if attrs.has(type(obj)):
        return {a.name: _mirror(getattr(obj, a.name)) for a in attrs.fields(type(obj))}
    if isinstance(obj, enum.Enum):
        v = obj.value
        return _mirror(v) if not isinstance(v, (str, int, float, bool)) else v
    if isinstance(obj, float) and (math.isinf(obj) or math.isnan(obj)):
        return None
    if isinstance(obj, (tuple, list)):
        return [_mirror(x) for x in obj]
    if isinstance(obj, dict):
        return {k: _mirror(v) for k, v in obj.items()}
    return obj


def cli(tier='quick', seed=0):
    import contextlib
    import os
    import tempfile
    from hpl.cli import main
    from hpl.parser import property_parser, specification_parser
    from bounded import corpus
    pp, sp = property_parser(), specification_parser()
    texts = list(corpus.PROPERTY_TEXTS) + ['globally: no a {x < INF}', 'globally: some a {x != NAN}', 'globally: a causes b',
                                           '# id: p1\n# title: "t"\nglobally: no a within 5 ms']
    multi = ['globally: no a globally: some b', 'globally: no a\nglobally: some b']
    bad = multi + ['globally: no', 'globally no a', 'after: no a', 'globally: no a {x + }', 'globally: no a {x + 1}', 'globally: no a {y = @Z.x}', '']
    cases = 0
    violations = []

    def run(argv):
        out, err = io.StringIO(), io.StringIO()
        with contextlib.redirect_stdout(out), contextlib.redirect_stderr(err):
            try:
                code = main(argv)
            except SystemExit as x:
                code = x.code
        return code, out.getvalue(), err.getvalue()
    tmp = tempfile.mkdtemp(prefix='verif_cli_')
    try:
        for i, text in enumerate(texts + bad):
            should_parse = text in texts
            path = os.path.join(tmp, f'f{i}.hpl')
            with open(path, 'w', encoding='utf-8') as f:
                f.write(text)
            for as_prop in (True, False):
                for fmt in (None, 'json'):
                    if text in multi and not as_prop:
                        continue          # a sequence of properties is a valid FILE, only invalid for -p
                    argv = (['-p'] if as_prop else []) + (['-o', fmt] if fmt else []) + [text if as_prop else path]
                    cases += 1
                    code, out, err = run(argv)
                    if (code == 0) != should_parse and len(violations) < 6:
                        violations.append({'witness': ' '.join(argv)[:160], 'what': f'exit status {code} for {"valid" if should_parse else "invalid"} input `{text[:60]}`'})
                        continue
                    if not should_parse:
                        if out.strip().startswith('{') and len(violations) < 6:
                            violations.append({'witness': ' '.join(argv)[:160], 'what': 'a JSON document is printed although the input does not parse'})
                        continue
                    if fmt == 'json':
                        try:
                            doc = _strict_loads(out)
                        except Exception as x:
                            if len(violations) < 6:
                                violations.append({'witness': ' '.join(argv)[:160], 'what': f'standard output is not one strictly valid JSON document: {x}'})
                            continue
                        ast = pp.parse(text) if as_prop else sp.parse(text)
                        if doc != _mirror(ast) and len(violations) < 6:
                            violations.append({'witness': ' '.join(argv)[:160], 'what': 'JSON output does not mirror the AST field for field'})
        cases += 1
        code, out, err = run([os.path.join(tmp, 'missing.hpl')])
        if code == 0:
            violations.append({'witness': 'missing file', 'what': 'exit status 0 for a missing file'})
    finally:
        import shutil
        shutil.rmtree(tmp, ignore_errors=True)
    return {'obligations_n': 0, 'discharged_n': 0, 'violations': violations, 'faults': [],
            'bounded': {'what': 'hpl.cli.main in process: exit status, strict JSON, mirror of the AST', 'bound': f'{len(texts)} valid + {len(bad)} invalid inputs x (-p | file) x (-o json | none)',
                        'cases': cases, 'distinct': cases, 'exhaustive': False},
            'samples': [{'argv': ['-p', '-o', 'json', 'globally: no a'], 'exit': 0}]}
