"""C17: ground obligations on the predefined integer tokens and the bounded stand-in for the schema walk
(type_check_references), compared with an independent resolver written from the statement."""
import itertools
import random


def int_tokens(tier='quick', seed=0):
    import hpl.types as T
    obs = []
    for bits in (8, 16, 32, 64):
        u = getattr(T.RangedType, f'uint{bits}')()
        s = getattr(T.RangedType, f'int{bits}')()
        obs.append((f'uint{bits} bounds', u.min_value == 0 and u.max_value == 2 ** bits - 1 and u.type == T.DataType.NUMBER))
        obs.append((f'int{bits} bounds', s.min_value == -(2 ** (bits - 1)) and s.max_value == 2 ** (bits - 1) - 1
                    and s.type == T.DataType.NUMBER))
        obs.append((f'exported UINT{bits}/INT{bits}', getattr(T, f'UINT{bits}') == u and getattr(T, f'INT{bits}') == s))
    obs.append(('BOOLEANS', T.BOOLEANS.type == T.DataType.BOOL and T.BOOLEANS.values == (False, True)))
    obs.append(('STRINGS', T.STRINGS.type == T.DataType.STRING))
    bad = [n for n, ok in obs if not ok]
    return {'obligations_n': len(obs), 'discharged_n': len(obs) - len(bad),
            'violations': [{'witness': n, 'what': f'integer token {n} is wrong'} for n in bad],
            'samples': [{'ground': 'int16 bounds == (-32768, 32767)'}]}


def _schema():
    from hpl.types import MessageType, ArrayType, INT8, BOOLEANS, STRINGS, FLOAT64
    inner = MessageType('Inner', fields={'z': INT8, 'w': STRINGS})
    elem = MessageType('Elem', fields={'q': INT8, 'ok': BOOLEANS})
    m = MessageType('M', fields={
        'k': INT8, 'f': FLOAT64, 'flag': BOOLEANS, 's': STRINGS,
        'arr3': ArrayType('int8[3]', INT8, length=3), 'arrv': ArrayType('int8[]', INT8),
        'inner': inner, 'msgs': ArrayType('Elem[2]', elem, length=2),
    }, constants={'C': (INT8, 5)})
    other = MessageType('O', fields={'v': INT8, 'name': STRINGS, 'vals': ArrayType('int8[]', INT8)})
    return {'a': m, 'b': other, 'c': m}


# ---- independent resolver (from the statement)

def _resolve(expr, this, variables):
    """('ok', token) | ('err', reason) for an accessor chain; walks the declared field tree"""
    from hpl.ast.expressions import HplFieldAccess, HplArrayAccess, HplThisMessage, HplVarReference, HplLiteral
    if isinstance(expr, HplThisMessage):
        return ('ok', this)
    if isinstance(expr, HplVarReference):
        t = variables.get(expr.token[1:])
        return ('ok', t) if t is not None else ('err', 'unknown variable')
    if isinstance(expr, HplFieldAccess):
        r = _resolve(expr.message, this, variables)
        if r[0] != 'ok':
            return r
        t = r[1]
        if not hasattr(t, 'fields'):
            return ('err', 'not a message')
        if expr.field in t.fields:
            nt = t.fields[expr.field]
        elif expr.field in t.constants:
            nt = t.constants[expr.field][0]
        else:
            return ('err', 'unknown field')
    elif isinstance(expr, HplArrayAccess):
        r = _resolve(expr.array, this, variables)
        if r[0] != 'ok':
            return r
        t = r[1]
        if not hasattr(t, 'subtype'):
            return ('err', 'not an array')
        if isinstance(expr.index, HplLiteral) and t.length >= 0 and not (expr.index.value < t.length):
            return ('err', 'index out of range')
        nt = t.subtype
    else:
        return ('err', 'not a path')
    if not (expr.data_type & nt.type):
        return ('err', 'type mismatch')
    return ('ok', nt)


def _paths(e):
    """every maximal accessor chain of e, including those inside indices, range bounds, set elements,
    function arguments and quantifiers (independent walk over the attrs fields)"""
    from specs.tree import slots
    from hpl.ast.expressions import HplFieldAccess, HplArrayAccess
    out = []

    def walk(n, top=True):
        if isinstance(n, (HplFieldAccess, HplArrayAccess)):
            if top:
                out.append(n)
            if isinstance(n, HplArrayAccess):
                walk(n.array, False)
                walk(n.index, True)
            else:
                walk(n.message, False)
            return
        for c in slots(n):
            walk(c, True)
    walk(e)
    return out


def expected_ok(prop, schema):
    from hpl.ast.predicates import HplPredicateExpression
    evs = []
    for e in (prop.scope.activator, prop.scope.terminator, prop.pattern.trigger, prop.pattern.behaviour):
        if e is not None:
            stack = [e]
            while stack:
                x = stack.pop()
                if hasattr(x, 'event1'):
                    stack.extend([x.event1, x.event2])
                else:
                    evs.append(x)
    # an alias stands for a message of the channel of the event that binds it
    variables = dict(schema)
    for ev in evs:
        if ev.alias is not None and ev.name in schema:
            variables[ev.alias] = schema[ev.name]
    for ev in evs:
        if ev.name not in schema:
            return False
        if isinstance(ev.predicate, HplPredicateExpression):
            for path in _paths(ev.predicate.expression):
                if _resolve(path, schema[ev.name], variables)[0] != 'ok':
                    return False
    return True


GOOD = ['k > 0', 'f < 1.5', 'flag', 's = "x"', 'arr3[0] = 1', 'arr3[2] > k', 'arrv[10] = 0', 'arrv[k] = 0',
        'inner.z = 1', 'inner.w = "a"', 'msgs[1].q > 0', 'msgs[0].ok', 'C = 5', 'k in {1, C, inner.z}',
        'k in [inner.z to arr3[1]]', 'abs(inner.z) > 0', 'len(arrv) > 0', 'forall i in arrv: @i > k',
        'exists i in [0 to 2]: arr3[@i] = inner.z', 'arr3[arr3[0]] = 1', 'arrv[inner.z + 1] > 0',
        'msgs[k].q > 0', 'msgs[msgs[0].q].q > 0', 'msgs[arr3[1]].ok']
BAD = ['nope > 0', 'inner.nope = 1', 'arr3[3] = 1', 'arr3[7] > k', 'k.z = 1', 'inner[0] = 1', 'msgs[2].q > 0',
       'msgs[0].nope', 'k in {1, nope}', 'k in [inner.nope to 3]', 'abs(inner.nope) > 0', 'len(nope) > 0',
       'forall i in nope: @i > k', 'exists i in [0 to 2]: arr3[@i] = nope', 'arr3[nope] = 1', 'arrv[inner.nope + 1] > 0',
       'msgs[nope].q > 0', 'msgs[inner.nope].q > 0', 'msgs[msgs[nope].q].q > 0', 'msgs[arr3[nope]].ok',
       'flag = 1 and flag', 's > 1', 'arr3 = 1', 'inner.w > 0', 'not k']


def schema_walk(tier='quick', seed=0):
    from hpl.parser import property_parser
    pp = property_parser()
    schema = _schema()
    rnd = random.Random(seed)
    texts = []
    for g in GOOD + BAD:
        texts.append(f'globally: no a {{{g}}}')
    pool = GOOD + BAD
    n = 1500 if tier == 'thorough' else 250
    for _ in range(n):
        p1, p2 = rnd.choice(pool), rnd.choice(GOOD)
        shape = rnd.randrange(5)
        if shape == 0:
            texts.append(f'globally: a {{{p1}}} causes c {{{p2}}}')
        elif shape == 1:
            texts.append(f'after b as B {{v > 0}}: no a {{{p1} and @B.v = k}}')
        elif shape == 2:
            texts.append(f'after b as B: a {{{p2}}} requires c {{{p1} or @B.{rnd.choice(["nope", "v", "name"])} = 1}}')
        elif shape == 3:
            texts.append(f'globally: (a {{{p1}}} or b {{v = 1}}) forbids c {{{p2}}} within 1 s')
        else:
            texts.append(f'until c {{{p1}}}: some a {{{p2} and ({p1} implies {p2})}}')
    cases = 0
    violations = []
    rejected = 0
    for t in texts:
        try:
            prop = pp.parse(t)
        except Exception:
            continue      # ill-typed at parse time: not a schema question
        cases += 1
        exp = expected_ok(prop, schema)
        try:
            prop.type_check_references(schema)
            got = True
        except (TypeError, IndexError, KeyError, Exception) as e:
            got = False
            err = e
        rejected += (not got)
        if got != exp and len(violations) < 5:
            violations.append({'witness': t, 'what': f'schema check {"accepts" if got else "rejects"} `{t}` but the paths '
                                                   f'{"do not " if not exp else ""}resolve in the schema'})
    # navigation helpers agree with the declared field tree
    m = schema['a']
    leaf = m.leaf_fields()
    exp_leaf = {'k', 'f', 'flag', 's', 'arr3', 'arrv', 'inner.z', 'inner.w', 'msgs'}
    if set(leaf) != exp_leaf:
        violations.append({'witness': 'leaf_fields', 'what': f'leaf_fields() = {sorted(leaf)} differs from the field tree'})
    for name in ['k', 'inner', 'C', 'nope']:
        if m.contains_name(name) != (name in m.fields or name in m.constants):
            violations.append({'witness': f'contains_name({name})', 'what': 'contains_name disagrees with the declaration'})
    if m.get_type_of('C') is not m.constants['C'][0] or m.get_type_of('k') is not m.fields['k']:
        violations.append({'witness': 'get_type_of', 'what': 'get_type_of disagrees with the declaration'})
    return {'obligations_n': 0, 'discharged_n': 0, 'violations': violations, 'faults': [],
            'bounded': {'what': 'type_check_references vs independent resolver on schema x property grid; navigation helpers',
                        'bound': f'{len(GOOD)} valid + {len(BAD)} invalid predicates at 6 property positions, {n} sampled combinations',
                        'cases': cases, 'distinct': cases, 'exhaustive': False, 'rejected': rejected},
            'samples': [{'text': 'globally: no a {arr3[nope] = 1}', 'expected': 'rejected'}]}
