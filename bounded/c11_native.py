"""Bounded stand-in for C11 (and the metadata / identity clauses the prover does not interpret):
canonical_form compared natively with the spec canon() over a grid of scope x pattern x widths."""
import itertools
import random


def _simple(name, alias=None, pred=None):
    from hpl.ast.events import HplSimpleEvent
    return HplSimpleEvent.publish(name, pred, alias=alias)


def _disj(events):
    from hpl.ast.events import HplEventDisjunction
    if len(events) == 1:
        return events[0]
    return HplEventDisjunction(events[0], _disj(events[1:]))


def grid(tier='quick', seed=0):
    from hpl.ast.properties import HplScope, HplPattern, HplProperty, PatternType, ScopeType
    from hpl.errors import HplSanityError
    from hpl.parser import predicate_parser
    from hpl.rewrite import canonical_form
    from specs.canon import canon, flat
    from specs.sanity import sane
    pp = predicate_parser()
    rnd = random.Random(seed)
    p_plain = pp.parse('{ x > 0 }')
    p_refA = pp.parse('{ x > @A.y }')
    maxw = 4 if tier == 'thorough' else 3
    cases = 0
    violations = []
    known_kind = 0

    def mk(tag, w, alias_mode):
        evs = []
        for i in range(w):
            al = None
            if alias_mode == 'all':
                al = 'A'
            elif alias_mode == 'first' and i == 0:
                al = 'A'
            evs.append(_simple(f'{tag}{i}', alias=al, pred=p_plain if rnd.random() < 0.7 else None))
        return _disj(evs)
    for sk in ScopeType:
        for pk in PatternType:
            has_a = sk in (ScopeType.AFTER, ScopeType.AFTER_UNTIL)
            has_t = sk in (ScopeType.UNTIL, ScopeType.AFTER_UNTIL)
            has_g = pk in (PatternType.REQUIREMENT, PatternType.RESPONSE, PatternType.PREVENTION)
            for wa, wb, wg, wt in itertools.product(range(1, maxw + 1) if has_a else [0], range(1, maxw + 1),
                                                    range(1, maxw + 1) if has_g else [0], [1, 2] if has_t else [0]):
                for alias_mode in ('none', 'all', 'first'):
                    act = mk('a', wa, alias_mode) if has_a else None
                    ter = mk('t', wt, 'none') if has_t else None
                    beh_alias = 'none'
                    first_alias = alias_mode if not has_a else 'none'
                    # the event that comes first in binding order may bind A; a later event may use @A
                    if pk is PatternType.REQUIREMENT:
                        beh = mk('b', wb, first_alias)
                        trig = _simple('g0', pred=p_refA if alias_mode != 'none' else p_plain) if wg == 1 else mk('g', wg, 'none')
                    elif has_g:
                        trig = mk('g', wg, first_alias)
                        beh = _simple('b0', pred=p_refA if alias_mode != 'none' else p_plain) if wb == 1 else mk('b', wb, 'none')
                    else:
                        trig = None
                        beh = _simple('b0', pred=p_refA if (alias_mode != 'none' and has_a) else p_plain) if wb == 1 else mk('b', wb, 'none')
                    scope = HplScope(sk, activator=act, terminator=ter)
                    tb = rnd.choice([float('inf'), 0.5, 2.0])
                    pattern = HplPattern(pk, beh, trig, min_time=rnd.choice([0.0, 0.25]) if tb > 0.25 else 0.0, max_time=tb)
                    try:
                        P = HplProperty(scope, pattern)
                    except HplSanityError:
                        continue
                    P.metadata.update({'id': f'p{cases}', 'title': 't'})
                    cases += 1
                    snapshot = repr(P) + repr(P.metadata)
                    try:
                        out = canonical_form(P)
                    except HplSanityError as e:
                        # is this the known class? some alternative of a split disjunction lacks an alias used later
                        try:
                            canon(P)
                            exp_ok = all(sane(s, p) for s, p in canon(P) if not isinstance(s, HplProperty)) \
                                if not (len(canon(P)) == 1 and canon(P)[0] is P) else True
                        except Exception:
                            exp_ok = False
                        kind = 'F13' if not exp_ok else 'raises although every expected output is sane'
                        if kind == 'F13':
                            known_kind += 1
                            violations.append({'witness': 'F13', 'kind': 'F13', 'what': f'canonical_form({P}) raises HplSanityError'})
                        else:
                            violations.append({'witness': str(P), 'what': f'canonical_form({P}) raises HplSanityError: {e}'})
                        continue
                    exp = canon(P)
                    bad = None
                    if len(exp) == 1 and exp[0] is P:
                        if not (len(out) == 1 and out[0] is P):
                            bad = 'unsplit property is not returned as itself'
                    else:
                        if len(out) != len(exp):
                            bad = f'{len(out)} outputs, expected {len(exp)}'
                        else:
                            for r, (s, p) in zip(out, exp):
                                if r.scope != s or r.pattern != p:
                                    bad = f'output {r} differs from expected ({s}: {p})'
                                    break
                                if r.metadata != P.metadata or r.metadata is P.metadata:
                                    bad = 'metadata not copied to the outputs (or shared)'
                                    break
                            if bad is None:
                                for r in out:
                                    again = canonical_form(r)
                                    if not (len(again) == 1 and again[0] is r):
                                        bad = 'canonical_form of an output is not just that output'
                                        break
                    if repr(P) + repr(P.metadata) != snapshot:
                        bad = 'the input property was modified'
                    if bad and len([v for v in violations if v.get('kind') != 'F13']) < 5:
                        violations.append({'witness': str(P), 'what': f'canonical_form({P}): {bad}'})
    # collapse the known class to one entry
    f13 = [v for v in violations if v.get('kind') == 'F13']
    rest = [v for v in violations if v.get('kind') != 'F13']
    if f13:
        rest.append({'witness': 'F13', 'what': f'canonical_form raises HplSanityError on {len(f13)} valid inputs whose split disjunction binds an alias in only some alternatives (e.g. {f13[0]["what"][:160]})'})
    return {'obligations_n': 0, 'discharged_n': 0, 'violations': rest[:6], 'faults': [],
            'bounded': {'what': 'canonical_form vs canon() incl. metadata copy, identity of unsplit inputs, idempotence, input unchanged',
                        'bound': f'4 scopes x 5 patterns x widths 1..{maxw} per position x 3 alias placements, random time bounds',
                        'cases': cases, 'distinct': cases, 'exhaustive': False, 'known_class_F13': known_kind},
            'samples': [{'input': 'after (a0 or a1): (g0 or g1) causes b0', 'outputs': 4}]}
