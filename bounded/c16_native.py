"""C16 - immutability: syntactic write inventory (ground obligations, fails closed) and deep before/after
snapshots around every API call on the corpus (bounded)."""
import ast
import pathlib
import random

SRC = pathlib.Path('/repo/src/hpl')


def inventory(tier='quick', seed=0):
    """every AST class is @frozen; metadata is init=False, eq=False; the only heap writes in the library are
    W1 object.__setattr__(self, ...) inside __attrs_post_init__, W2 the forced narrowing in _type_check,
    W3 .metadata.update(...) on an object created in the same function"""
    obs = []
    violations = []
    writes = []
    classes = {}
    for p in sorted(SRC.rglob('*.py')):
        if p.name == '_unused.py':
            continue
        tree = ast.parse(p.read_text())
        rel = str(p.relative_to(SRC))
        for node in ast.walk(tree):
            if isinstance(node, ast.ClassDef):
                decos = [ast.unparse(d) for d in node.decorator_list]
                classes[node.name] = (rel, decos, node)
        for fn in [n for n in ast.walk(tree) if isinstance(n, (ast.FunctionDef, ast.AsyncFunctionDef))]:
            for n in ast.walk(fn):
                if isinstance(n, ast.Call):
                    f = ast.unparse(n.func)
                    if f == 'object.__setattr__':
                        tgt = ast.unparse(n.args[0]) if n.args else '?'
                        kind = 'W1' if (tgt == 'self' and fn.name == '__attrs_post_init__') else \
                            ('W2' if (fn.name == '_type_check' and tgt == 'expr') else 'UNKNOWN')
                        writes.append((rel, fn.name, kind, ast.unparse(n)[:80]))
                    elif f in ('setattr', 'delattr') or f.endswith('.__setattr__') or f.endswith('.__dict__.update'):
                        writes.append((rel, fn.name, 'UNKNOWN', ast.unparse(n)[:80]))
                    elif f.endswith('.metadata.update') or f.endswith('.metadata.clear') or f.endswith('.metadata.pop') \
                            or f.endswith('.metadata.setdefault'):
                        owner = f.split('.')[0]
                        created_here = any(isinstance(a, ast.Assign) and any(isinstance(t, ast.Name) and t.id == owner for t in a.targets)
                                           for a in ast.walk(fn))
                        writes.append((rel, fn.name, 'W3' if (created_here and f.endswith('.update')) else 'UNKNOWN', ast.unparse(n)[:80]))
                if isinstance(n, (ast.Assign, ast.AugAssign, ast.AnnAssign)):
                    targets = n.targets if isinstance(n, ast.Assign) else [n.target]
                    for t in targets:
                        for sub in ast.walk(t):
                            if isinstance(sub, ast.Attribute) and isinstance(sub.ctx, ast.Store):
                                writes.append((rel, fn.name, 'UNKNOWN', ast.unparse(n)[:80]))
                            if isinstance(sub, ast.Subscript) and isinstance(sub.ctx, ast.Store) and isinstance(sub.value, ast.Attribute) \
                                    and sub.value.attr == 'metadata':
                                writes.append((rel, fn.name, 'UNKNOWN', ast.unparse(n)[:80]))
                if isinstance(n, ast.Delete):
                    for t in n.targets:
                        if isinstance(t, (ast.Attribute,)):
                            writes.append((rel, fn.name, 'UNKNOWN', ast.unparse(n)[:80]))
    # call sites that request the forced (in-place) narrowing: exactly the operand validators of the operator and
    # accessor constructors
    forced = []
    for p in sorted(SRC.rglob('*.py')):
        if p.name == '_unused.py':
            continue
        tree = ast.parse(p.read_text())
        for fn in [n for n in ast.walk(tree) if isinstance(n, ast.FunctionDef)]:
            for n in ast.walk(fn):
                if isinstance(n, ast.Call) and any(k.arg == 'force' and not (isinstance(k.value, ast.Constant) and k.value.value is False)
                                                   for k in n.keywords):
                    if ast.unparse(n.func) in ('self._type_check', '_type_checker'):
                        forced.append((str(p.relative_to(SRC)), fn.name, ast.unparse(n)[:70]))
        for cls in [n for n in ast.walk(tree) if isinstance(n, ast.ClassDef)]:
            for st in cls.body:
                if isinstance(st, (ast.Assign, ast.AnnAssign)) and st.value is not None:
                    for n in ast.walk(st.value):
                        if isinstance(n, ast.Call) and ast.unparse(n.func) == '_type_checker' and any(
                                k.arg == 'force' and not (isinstance(k.value, ast.Constant) and k.value.value is False) for k in n.keywords):
                            forced.append((str(p.relative_to(SRC)), cls.name, ast.unparse(n)[:70]))
    allowed = {('ast/expressions.py', '_check_operand'), ('ast/expressions.py', '_check_operand1'),
               ('ast/expressions.py', '_check_operand2'), ('ast/expressions.py', 'HplFieldAccess'),
               ('ast/expressions.py', 'HplArrayAccess'), ('ast/expressions.py', 'validator'),
               ('ast/expressions.py', '_type_checker')}
    extra_forced = [f for f in forced if (f[0], f[1]) not in allowed]
    obs.append(('forced narrowing is requested only by operator/accessor operand validators', not extra_forced))
    for f in extra_forced[:3]:
        violations.append({'witness': f'{f[0]}:{f[1]}', 'what': f'new call site of the in-place narrowing (force=True): {f[0]} {f[1]}: {f[2]}'})
    unknown = [w for w in writes if w[2] == 'UNKNOWN']
    obs.append(('write inventory contains only W1/W2/W3', not unknown))
    for w in unknown[:4]:
        violations.append({'witness': f'{w[0]}:{w[1]}', 'what': f'unclassified heap write in {w[0]} {w[1]}(): {w[3]}'})
    obs.append(('exactly one W2 site (forced narrowing in _type_check)', len([w for w in writes if w[2] == 'W2']) == 1))
    # frozen classes, metadata declaration (from the live classes)
    import attrs
    from pyvc import classtable
    ct = classtable.get_table()
    from hpl.ast.base import HplAstObject
    for ci in ct.classes.values():
        if issubclass(ci.cls, HplAstObject):
            name = ci.name
            fr = False
            try:
                o = object.__new__(ci.cls)
                try:
                    o.metadata = {}
                except attrs.exceptions.FrozenInstanceError:
                    fr = True
                except AttributeError:
                    fr = True
            except Exception:
                fr = False
            obs.append((f'{name} is frozen', fr))
            md = [a for a in attrs.fields(ci.cls) if a.name == 'metadata']
            obs.append((f'{name}.metadata is init=False, eq=False', bool(md) and md[0].init is False and md[0].eq is False))
    for k in ('HplAstObject', 'HplExpression', 'HplValue', 'HplAtomicValue', 'HplDataAccess', 'HplPredicate', 'HplEvent'):
        if k in classes:
            obs.append((f'{k} declared @frozen', any('frozen' in d for d in classes[k][1])))
    bad = [n for n, ok in obs if not ok]
    for n in bad:
        if not any(n in v['what'] for v in violations):
            violations.append({'witness': n, 'what': f'immutability declaration missing: {n}'})
    return {'obligations_n': len(obs), 'discharged_n': len(obs) - len(bad), 'violations': violations[:6],
            'samples': [{'write_sites': [list(w) for w in writes][:8]}]}


def _snap(x):
    import attrs
    if attrs.has(type(x)):
        return (type(x).__name__, tuple((a.name, _snap(getattr(x, a.name))) for a in attrs.fields(type(x))), hash(x))
    if isinstance(x, (tuple, list)):
        return tuple(_snap(v) for v in x)
    if isinstance(x, dict):
        return tuple(sorted((k, _snap(v)) for k, v in x.items()))
    return repr(x) if isinstance(x, float) else x


def snapshots(tier='quick', seed=0):
    from bounded import corpus
    from hpl import rewrite as R
    from hpl.types import DataType, MessageType, INT8, ArrayType
    from hpl.ast.predicates import HplPredicateExpression
    import attrs
    rnd = random.Random(seed)
    n = 600 if tier == 'thorough' else 120
    exprs = list(corpus.expressions(seed, n, 3))
    props = list(corpus.properties(seed))
    preds = []
    for e in exprs:
        if e.can_be_bool:
            try:
                preds.append(HplPredicateExpression(e))
            except Exception:
                pass
    m = MessageType('M', fields={'x': INT8, 'y': INT8, 'xs': ArrayType('a', INT8), 'p': INT8})
    ops = {
        'str': lambda o: str(o),
        'external_references': lambda o: o.external_references() if hasattr(o, 'external_references') else None,
        'contains_reference': lambda o: o.contains_reference('A') if hasattr(o, 'contains_reference') else None,
        'iterate': lambda o: list(o.iterate()),
        'cast': lambda o: [o.cast(t) for t in (DataType.NUMBER, DataType.BOOL, DataType.PRIMITIVE, DataType.ANY) if o.can_be(t)] if hasattr(o, 'cast') else None,
        'but_same': lambda o: o.but(**{a.name: getattr(o, a.name) for a in attrs.fields(type(o)) if a.init and a.name != 'data_type'}),
        'but_dt': lambda o: o.but(data_type=o.data_type) if hasattr(o, 'data_type') else None,
        'simplify': lambda o: R.simplify(o) if not hasattr(o, 'scope') else None,
        'split_and': lambda o: R.split_and(o) if (getattr(o, 'can_be_bool', False) or getattr(o, 'is_predicate', False)) else None,
        'refactor_reference': lambda o: R.refactor_reference(o, 'A') if (getattr(o, 'can_be_bool', False) or getattr(o, 'is_predicate', False)) else None,
        'replace_this_with_var': lambda o: R.replace_this_with_var(o, 'M') if not hasattr(o, 'scope') else None,
        'replace_var_with_this': lambda o: R.replace_var_with_this(o, 'A') if not hasattr(o, 'scope') else None,
        'negate': lambda o: o.negate() if hasattr(o, 'negate') else None,
        'canonical_form': lambda o: R.canonical_form(o) if hasattr(o, 'scope') else None,
        'type_check_references': lambda o: o.type_check_references({k: m for k in 'abcdgpqt'}) if hasattr(o, 'scope') else None,
    }
    cases = 0
    violations = []
    known = 0
    objs = exprs + preds + props
    for o in objs:
        if hasattr(o, 'metadata'):
            pass
        before = _snap(o)
        seq_len = 3 if tier == 'thorough' else 2
        names = list(ops)
        trials = [[nm] for nm in names] + [[rnd.choice(names) for _ in range(seq_len)] for _ in range(4)]
        for seq in trials:
            cur = o
            for nm in seq:
                cases += 1
                try:
                    r = ops[nm](cur)
                except Exception:
                    r = None
                after = _snap(o)
                if after != before:
                    what = f'{nm}() changed an existing tree: `{o}`'
                    if len(violations) < 5:
                        violations.append({'witness': f'{nm}:{o}'[:200], 'what': what[:300]})
                    before = after
                # identity / copy clauses of but()
                if nm in ('but_same', 'but_dt') and r is not None and r is not cur:
                    if len(violations) < 5:
                        violations.append({'witness': f'{nm}:{cur}'[:200], 'what': f'but() with unchanged values does not return the same object for `{cur}`'})
                if isinstance(r, type(o)) and r is not None and not isinstance(r, (list, tuple)) and rnd.random() < 0.3:
                    cur = r
    # but() with changes: equal to a fresh construction, metadata copied not shared, eq/hash ignore metadata
    from hpl.parser import property_parser
    pp = property_parser()
    for text in corpus.PROPERTY_TEXTS[:8]:
        P = pp.parse('# id: p1\n# title: "t"\n' + text)
        Q = P.but(pattern=P.pattern.but(max_time=7.0))
        cases += 1
        fresh = type(P)(P.scope, P.pattern.but(max_time=7.0))
        if Q != fresh or hash(Q) != hash(fresh):
            violations.append({'witness': f'but:{text}', 'what': 'but() result differs from a fresh construction with those fields'})
        if Q.metadata != P.metadata or Q.metadata is P.metadata:
            violations.append({'witness': f'but-meta:{text}', 'what': 'but() does not carry a copy of the metadata (missing or shared)'})
        Q.metadata['x'] = 1
        if 'x' in P.metadata:
            violations.append({'witness': f'but-meta-shared:{text}', 'what': 'metadata dict is shared between a copy and its original'})
        P2 = pp.parse(text)
        if P2 != P or hash(P2) != hash(P):
            violations.append({'witness': f'eq-meta:{text}', 'what': 'equality / hash depend on metadata'})
    # but() with changed values on expression nodes: receiver untouched, result equals a fresh construction
    from hpl.parser import expression_parser
    from hpl.ast.expressions import HplLiteral, HplQuantifier, HplUnaryOperator, HplBinaryOperator
    ep = expression_parser()

    def changed_kwargs(o):
        if isinstance(o, HplLiteral) and o.value in (0, 1) and not isinstance(o.value, bool):
            yield {'value': bool(o.value)}
        if isinstance(o, HplLiteral) and isinstance(o.value, bool):
            yield {'value': int(o.value)}
        if isinstance(o, HplQuantifier):
            yield {'domain': ep.parse('{1, 2, 3}')}
            yield {'domain': ep.parse('[1 to 3]')}
        if isinstance(o, HplUnaryOperator):
            yield {'operand': ep.parse('(x + 1)') if o.operator.is_minus else ep.parse('(x > 1)')}
        if isinstance(o, HplBinaryOperator):
            yield {'operand2': o.operand1}
    for o in corpus.all_nodes(exprs):
        for kw in changed_kwargs(o):
            before = _snap(o)
            cases += 1
            try:
                r = o.but(**kw)
            except Exception:
                continue
            if _snap(o) != before and len(violations) < 6:
                violations.append({'witness': f'but({list(kw)}):{o}'[:200], 'what': f'but({list(kw)}) changed the original tree `{o}`'[:300]})
            init = {a.name: getattr(o, a.name) for a in attrs.fields(type(o)) if a.init}
            init.update(kw)
            try:
                fresh = type(o)(**init)
            except Exception:
                continue
            if (r != fresh or hash(r) != hash(fresh) or repr(r) != repr(fresh)) and len(violations) < 6:
                violations.append({'witness': f'but-fresh({list(kw)}):{o}'[:200],
                                   'what': f'`{o}`.but({ {k: str(v) for k, v in kw.items()} }) is not equal to a fresh construction with those fields'[:300]})
    return {'obligations_n': 0, 'discharged_n': 0, 'violations': violations[:6], 'faults': [],
            'bounded': {'what': 'deep snapshot (structure, stored types, metadata, hash) of an existing AST before/after API calls and call sequences',
                        'bound': f'{len(objs)} ASTs x {len(ops)} calls + 4 random sequences of length {3 if tier == "thorough" else 2}',
                        'cases': cases, 'distinct': cases, 'exhaustive': False},
            'samples': [{'call': 'simplify(parse("x + 0 = x"))', 'input_unchanged': True}]}
