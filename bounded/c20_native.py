"""Ground obligations and the exhaustive A-FLAG validation for C20 (finite domain: 128 type sets)."""
import itertools


def members(tier='quick', seed=0):
    """the class body: seven pairwise distinct single-bit base flags, NONE empty, ANY everything,
    named unions are what their names say"""
    from hpl.types import DataType as D
    base = [D.BOOL, D.NUMBER, D.STRING, D.ARRAY, D.RANGE, D.SET, D.MESSAGE]
    obs = []
    obs.append(('seven base flags are single bits', all(bin(b.value).count('1') == 1 for b in base)))
    obs.append(('base flags pairwise distinct', len({b.value for b in base}) == 7))
    obs.append(('NONE is empty', D.NONE.value == 0))
    anyv = 0
    for b in base:
        anyv |= b.value
    obs.append(('ANY is the union of the base flags', D.ANY.value == anyv))
    obs.append(('PRIMITIVE = BOOL|NUMBER|STRING', D.PRIMITIVE.value == D.BOOL.value | D.NUMBER.value | D.STRING.value))
    obs.append(('ITEM = PRIMITIVE|MESSAGE', D.ITEM.value == D.PRIMITIVE.value | D.MESSAGE.value))
    obs.append(('COMPOUND = ARRAY|RANGE|SET', D.COMPOUND.value == D.ARRAY.value | D.RANGE.value | D.SET.value))
    obs.append(('all members fit 7 bits', all(0 <= m.value < 128 for m in D.__members__.values())))
    bad = [n for n, ok in obs if not ok]
    return {'obligations_n': len(obs), 'discharged_n': len(obs) - len(bad),
            'violations': [{'witness': n, 'what': f'DataType class body: {n} fails'} for n in bad],
            'samples': [{'ground': obs[0][0]}]}


def flag_semantics(tier='quick', seed=0):
    """A-FLAG: enum.Flag &, |, bool on DataType are bitwise on .value, for all 128 x 128 pairs; and the
    real cast/can_be/union agree with the spec on every pair (complete enumeration of a finite domain)."""
    from hpl.types import DataType as D
    import specs.lattice as L
    vals = [D(v) for v in range(128)]
    cases = 0
    faults = []
    violations = []
    for a in vals:
        for b in vals:
            cases += 1
            if (a & b).value != (a.value & b.value) or (a | b).value != (a.value | b.value) \
                    or bool(a) != (a.value != 0):
                faults.append(f'A-FLAG fails for {a!r},{b!r}')
            exp = L.meet(a, b)
            try:
                r = a.cast(b)
                ok = (exp != D.NONE) and r == exp
            except TypeError:
                ok = exp == D.NONE
            if not ok:
                violations.append({'witness': f'cast({a.value},{b.value})',
                                   'what': f'DataType({a.value}).cast(DataType({b.value})) is not the intersection'})
            if a.can_be(b) != (exp != D.NONE):
                violations.append({'witness': f'can_be({a.value},{b.value})',
                                   'what': f'DataType({a.value}).can_be(DataType({b.value})) is not non-empty intersection'})
    import random
    rnd = random.Random(seed)
    triples = itertools.product(vals, repeat=3) if tier == 'thorough' else \
        ((rnd.choice(vals), rnd.choice(vals), rnd.choice(vals)) for _ in range(20000))
    n3 = 0
    for a, b, c in triples:
        n3 += 1
        try:
            l = a.cast(b).cast(c)
        except TypeError:
            l = None
        try:
            r = a.cast(b.cast(c))
        except TypeError:
            r = None
        if l != r:
            violations.append({'witness': f'assoc({a.value},{b.value},{c.value})', 'what': 'cast is not associative'})
        if D.union([a, b, c]) != L.fold_or([a, b, c]):
            violations.append({'witness': f'union({a.value},{b.value},{c.value})', 'what': 'union is not the join'})
    return {'obligations_n': 0, 'discharged_n': 0, 'faults': faults[:3], 'violations': violations[:5],
            'bounded': {'what': 'DataType cast/can_be on all 128x128 pairs, associativity/union on triples',
                        'bound': '128^2 pairs; triples: all 128^3 (thorough) / 20000 sampled (quick)',
                        'cases': cases + n3, 'distinct': cases + n3, 'exhaustive': tier == 'thorough'},
            'samples': [{'pair': [3, 6], 'meet': 2}]}
