"""Ground obligations for the parser-side properties (evaluated on the live objects / files of /repo)."""
import filecmp
import math
import os
import shutil
import subprocess
import sys
import tempfile


def generated_grammar(tier='quick', seed=0):
    """C01: src/hpl/grammar.py is exactly what scripts/build_grammars.py generates from grammars/*.lark
    (the real script, run on a scratch copy that is removed afterwards)"""
    tmp = tempfile.mkdtemp(prefix='verif_grammar_')
    obs = []
    violations = []
    try:
        os.makedirs(os.path.join(tmp, 'scripts'))
        os.makedirs(os.path.join(tmp, 'src', 'hpl'))
        shutil.copy('/repo/scripts/build_grammars.py', os.path.join(tmp, 'scripts'))
        shutil.copytree('/repo/src/hpl/grammars', os.path.join(tmp, 'src', 'hpl', 'grammars'))
        r = subprocess.run([sys.executable, os.path.join(tmp, 'scripts', 'build_grammars.py')], capture_output=True, text=True, timeout=60)
        gen = os.path.join(tmp, 'src', 'hpl', 'grammar.py')
        ok = r.returncode == 0 and os.path.exists(gen)
        if ok and not filecmp.cmp(gen, '/repo/src/hpl/grammar.py', shallow=False):
            # not byte-identical (the committed module writes `(x)?` where the generator writes `x?`):
            # compare what the two texts *mean* - the compiled rule and terminal tables and the operator constants
            ok = _same_grammar(gen, '/repo/src/hpl/grammar.py')
        obs.append(('grammar.py equals the output of build_grammars.py on grammars/*.lark', ok))
        if not ok:
            violations.append({'witness': 'grammar.py', 'what': 'src/hpl/grammar.py differs from what scripts/build_grammars.py generates from src/hpl/grammars/*.lark'
                               + (f' ({r.stderr[-200:]})' if r.returncode else '')})
    finally:
        shutil.rmtree(tmp, ignore_errors=True)
    # operator tables: token <-> definition is a bijection and the tokens are the grammar's
    from hpl.ast.expressions import BuiltinBinaryOperator, BuiltinUnaryOperator, BuiltinFunction
    import hpl.grammar as G
    toks = [m.value.token for m in BuiltinBinaryOperator]
    obs.append(('binary operator tokens are pairwise distinct', len(set(toks)) == len(toks)))
    expected = {'+', '-', '*', '/', '**', G.IMPLIES_OPERATOR, G.IFF_OPERATOR, G.OR_OPERATOR, G.AND_OPERATOR, '=', '!=', '<', '<=', '>', '>=', G.IN_OPERATOR}
    obs.append(('binary operator tokens are exactly those of the grammar', set(toks) == expected))
    obs.append(('unary operator tokens', {m.value.token for m in BuiltinUnaryOperator} == {'-', G.NOT_OPERATOR}))
    names = [m.value.name for m in BuiltinFunction]
    obs.append(('function names pairwise distinct', len(set(names)) == len(names)))
    from hpl.parser import NumberConstants
    obs.append(('number constants', NumberConstants.PI.value == math.pi and NumberConstants.E.value == math.e
                and math.isinf(NumberConstants.INF.value) and math.isnan(NumberConstants.NAN.value)))
    bad = [n for n, ok in obs if not ok]
    for n in bad:
        if not any(n in v['what'] for v in violations):
            violations.append({'witness': n, 'what': f'ground obligation fails: {n}'})
    return {'obligations_n': len(obs), 'discharged_n': len(obs) - len(bad), 'violations': violations,
            'samples': [{'ground': obs[0][0]}]}


def _same_grammar(path_a, path_b):
    from lark import Lark

    def load(path):
        ns = {}
        exec(compile(open(path, encoding='utf8').read(), path, 'exec'), ns)
        return ns

    def table(text, start):
        lk = Lark(text, parser='lalr', start=start, maybe_placeholders=True)
        rules = sorted((str(r.origin), tuple(str(x) for x in r.expansion), str(r.options)) for r in lk.rules)
        terms = sorted((t.name, str(t.pattern), t.priority) for t in lk.terminals)
        return rules, terms, sorted(lk.ignore_tokens)
    a, b = load(path_a), load(path_b)
    consts_a = {k: v for k, v in a.items() if k.endswith('_OPERATOR')}
    consts_b = {k: v for k, v in b.items() if k.endswith('_OPERATOR')}
    if consts_a != consts_b:
        return False
    for name, starts in (('HPL_GRAMMAR', ['hpl_file', 'hpl_property']), ('PREDICATE_GRAMMAR', ['hpl_predicate', 'hpl_expression'])):
        for st in starts:
            if table(a[name], st) != table(b[name], st):
                return False
    return True


def serializer(tier='quick', seed=0):
    """C19: _ast_object_serializer maps Enum -> value, non-finite float -> None, everything else unchanged"""
    import enum
    from hpl.cli import _ast_object_serializer as ser
    from hpl.ast.properties import PatternType, ScopeType
    from hpl.ast.expressions import QuantifierType
    obs = []
    for v in list(PatternType) + list(ScopeType) + list(QuantifierType):
        obs.append((f'enum {v}', ser(None, None, v) == v.value))
    obs.append(('inf -> None', ser(None, None, float('inf')) is None and ser(None, None, float('-inf')) is None))
    obs.append(('nan -> None', ser(None, None, float('nan')) is None))
    for v in (0.0, 1.5, -2, 'x', True, None, (1, 2), {'a': 1}):
        obs.append((f'unchanged {v!r}', ser(None, None, v) is v or ser(None, None, v) == v))
    bad = [n for n, ok in obs if not ok]
    return {'obligations_n': len(obs), 'discharged_n': len(obs) - len(bad),
            'violations': [{'witness': n, 'what': f'serializer: {n} fails'} for n in bad], 'samples': [{'ground': 'inf -> None'}]}
