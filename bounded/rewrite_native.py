"""Bounded stand-ins for the rewriting properties C08, C09, C10, C13, C14: the real functions of hpl.rewrite
and the predicate combinators run on the expression corpus and are compared with the reference semantics
(bounded.evaluator) on a grid of valuations."""
from __future__ import annotations

import random

from bounded.evaluator import valuations, try_eval, same_value, EvalError

EXTRA_ARITH = [
    'x + 0', '0 + x', 'x - 0', 'x * 1', '1 * x', 'x * 0', 'x / 1', 'x ** 1', 'x ** 0', 'x - x', 'x / x', '-x + x', 'x + -x',
    '(x + 1) + 2', '(x + 1) + (y + z)', '(x * 2) * 3', '2 + x', '2 * x + 3', 'x * -1', '(x / y) * y', 'y * (x / y)',
    'x - -y', '-(-x)', '--x', '0 ** x', '1 ** x', 'x ** y ** 2', '(x - 1) - 1', '1 - x', '(1 - x) + 1',
    'x = x', 'x != x', 'x + 1 = x', 'x - 1 != x', 'x < x + 1', '-x < x', '-x = x', 'x * 2 = x', 'x / 2 != x', 'x ** 2 = x',
    '1 < 2', '2 <= 1', '1 = 1', '"a" = "a"', '"a" != "b"', 'x > 1 and x > 1', 'x > 1 or not x > 1', 'x > 1 and not x > 1',
    'p iff p', 'p iff not p', 'p implies p', 'p implies q', 'not not p', 'not True', 'not False', 'p and True', 'p or False',
    'True and p', 'False or p', 'p and False', 'p or True', '(p and q) and p', 'p or (q or p)', 'p and (q and (p and q))',
    'str(5) = "5"', 'str(x) = "1"', 'bool("") = False',
    'abs(-2) = 2', 'abs(x) >= 0', 'int(2.5) = 2', 'float(2) = 2', 'bool(1)', 'len({1, 2, x}) = 3', 'len([1 to 3]) = 3',
    'len(![1 to 3]!) = 1', 'sum({1, 2, x}) > x', 'prod({2, 3, x}) = 6 * x', 'sum([1 to 4]) = 10', 'prod([1 to 4]) = 24',
    'max({1, 5, x}) >= 5', 'min({1, 5, x}) <= 1', 'max(1, 2, x) >= 2', 'min(3, 2) = 2', 'max([1 to 4]) = 4', 'min([2 to 4]) = 2',
    'sqrt(4) = 2', 'ceil(1.5) = 2', 'floor(1.5) = 1', 'x in {1, 1, 2}', 'x in [1 + 1 to 2 * 3]', '{x + 0, 1} = {x, 1}',
    'forall i in xs: (@i + 0 > 0 and True)', 'exists i in [1 to 2 + 1]: @i = x * 1', '(x = 1) = (y = 2)', 'x + y + 1 + 2',
    '@A.n + 0 > @A.n * 1', 'x > @A.n', '1 < x', '@A.n < x', 'not (x < 1)', 'x * y * 2 * 3', '(x + y) - (x + y)', 'x / (y + 0)',
]


def _corpus(seed, n, tier):
    from bounded import corpus
    from hpl.parser import expression_parser
    ep = expression_parser()
    exprs = list(corpus.expressions(seed, n, 4 if tier == 'thorough' else 3))
    for t in EXTRA_ARITH:
        try:
            exprs.append(ep.parse(t))
        except Exception:
            pass
    return exprs


def _classify_simplify(e, r, env, vo, vr):
    """name of the known finding class a simplify disagreement belongs to, or None"""
    s = str(e)
    sr = str(r)
    if vo[0] == 'ok' and isinstance(vo[1], bool) and sr in ('True', 'False'):
        if any(op in s for op in (' * ', ' / ', ' ** ')) and (' = ' in s or ' != ' in s):
            return 'F8'
        if '(-' in s and (' = ' in s or ' != ' in s):
            return 'F8'
    if ' ** ' in s and s.count('**') >= 2:
        return 'F9'
    if s.count(' = ') + s.count(' != ') >= 2 and ('(' in s):
        return 'F9'
    if any(f in s for f in ('len(', 'sum(', 'prod(', 'max(', 'min(')) and (' to ' in s):
        return 'F15'
    if '"' in s and any(f in s for f in ('bool(', 'str(', 'int(', 'float(', 'len(')):
        return 'F17'
    return None


def simplify_semantics(tier='quick', seed=0):
    """C08: simplified form evaluates to the same value wherever the original evaluates; same type; valid AST;
    predicate becomes vacuous exactly for literal True/False; raises only for undefined constant sub-expressions"""
    from hpl.rewrite import simplify
    from hpl.ast.predicates import HplPredicateExpression, HplVacuousTruth, HplContradiction
    from hpl.ast.expressions import HplLiteral
    from specs.typing import wt
    import contracts.typing_c03  # noqa: F401
    rnd = random.Random(seed)
    exprs = _corpus(seed, 900 if tier == 'thorough' else 200, tier)
    nval = 10 if tier == 'thorough' else 5
    cases = 0
    violations = []
    known = {}
    internal = {}
    for e in exprs:
        try:
            r = simplify(e)
        except (ZeroDivisionError, ValueError, OverflowError):
            continue      # allowed when a constant sub-expression is undefined (checked by C14's task)
        except Exception as x:
            internal[type(x).__name__] = internal.get(type(x).__name__, 0) + 1
            continue      # internal failures are C14's business
        cases += 1
        if r.data_type != e.data_type and len(violations) < 6:
            violations.append({'witness': f'type:{e}', 'what': f'simplify(`{e}`) = `{r}` changes the type {e.data_type!r} -> {r.data_type!r}'})
        if not wt(r) and wt(e) and len(violations) < 6:
            violations.append({'witness': f'wt:{e}', 'what': f'simplify(`{e}`) = `{r}` is not a well-typed AST'})
        for env in valuations([e], nval, rnd):
            vo = try_eval(e, env)
            if vo[0] != 'ok':
                continue
            vr = try_eval(r, env)
            cases += 1
            if vr[0] != 'ok' or not same_value(vo[1], vr[1]):
                k = _classify_simplify(e, r, env, vo, vr)
                if k:
                    known[k] = known.get(k, 0) + 1
                elif len(violations) < 6:
                    violations.append({'witness': f'{e}', 'what': f'simplify(`{e}`) = `{r}` evaluates to {vr} but the original to {vo[1]!r} under {env}'[:400]})
                break
        if e.can_be_bool:
            try:
                p = HplPredicateExpression(e)
                q = simplify(p)
                se = simplify(e)
                lit = isinstance(se, HplLiteral) and isinstance(se.value, bool)
                if isinstance(q, HplVacuousTruth) != (lit and se.value is True) or isinstance(q, HplContradiction) != (lit and se.value is False):
                    if len(violations) < 6:
                        violations.append({'witness': f'vacuous:{e}', 'what': f'simplify({{{e}}}) = {q} but the condition simplifies to `{se}`'})
            except Exception:
                pass
    for k, c in sorted(known.items()):
        violations.append({'witness': k, 'what': f'{c} simplify disagreements of the known class {k}'})
    return {'obligations_n': 0, 'discharged_n': 0, 'violations': violations, 'faults': [],
            'bounded': {'what': 'simplify vs reference evaluation', 'bound': f'{len(exprs)} expressions x {nval} valuations from the grid {{0,1,-1,2,0.5,3}} / arrays of length 0..4',
                        'cases': cases, 'distinct': cases, 'exhaustive': False, 'known_classes': known, 'internal_errors_seen': internal},
            'samples': [{'expr': 'x + 0 = x', 'simplified': 'True'}]}


def _conj(parts, env):
    vals = []
    for p in parts:
        v = try_eval(p, env)
        if v[0] != 'ok' or not isinstance(v[1], bool):
            return ('err', v)
        vals.append(v[1])
    return ('ok', all(vals))


def _indivisible(r):
    from hpl.rewrite import is_and, is_not, is_or, is_implies
    if is_and(r):
        return False
    if is_not(r):
        o = r.operand
        if is_or(o) or is_implies(o) or is_not(o) or (o.is_quantifier and o.is_existential):
            return False
    if r.is_quantifier and r.is_universal and is_and(r.condition):
        return False
    return True


def _has_false_conjunct(e):
    """the input has a literally false conjunct (through and, not-or, not-implies, not-not, forall-and)"""
    from hpl.rewrite import is_and, is_not, is_or, is_implies, is_false, is_true
    if is_false(e):
        return True
    if is_and(e):
        return _has_false_conjunct(e.a) or _has_false_conjunct(e.b)
    if is_not(e):
        o = e.operand
        if is_true(o):
            return False
        if is_not(o):
            return _has_false_conjunct(o.operand)
        if is_or(o):
            return _neg_false(o.a) or _neg_false(o.b)
        if is_implies(o):
            return _has_false_conjunct(o.a) or _neg_false(o.b)
    return False


def _neg_false(e):
    from hpl.rewrite import is_true
    from hpl.ast.expressions import Not
    if is_true(e):
        return True
    try:
        return _has_false_conjunct(Not(e))
    except Exception:
        return False


def split_and_semantics(tier='quick', seed=0):
    """C09: conjunction of the parts == input on every valuation; parts boolean and indivisible; ValueError only
    for a literally false conjunct"""
    from hpl.rewrite import split_and
    from hpl.types import DataType
    rnd = random.Random(seed)
    exprs = [e for e in _corpus(seed, 900 if tier == 'thorough' else 200, tier) if e.data_type == DataType.BOOL]
    from hpl.parser import expression_parser
    ep = expression_parser()
    for t in ['not (p or q)', 'not (p implies q)', 'not not p', 'not not not (p or q)', 'not (exists i in xs: @i > 0)',
              'forall i in xs: (@i > 0 and y > 1)', 'forall i in xs: (y > 1 and q)', 'not not (forall i in xs: (@i > 0 and p))',
              'forall i in xs: (False and @i > 0)', 'p and False', 'not (p or True)', 'forall i in xs: (ys[@i] > 0 and @i < 5)',
              'not (exists i in xs: (ys[@i] > 0 or @i > 5))', 'p and (q and not (p implies (q or p)))',
              'forall i in xs: (forall j in ys: (@i > @j and @j > 0))', 'forall i in xs: not (@i > 0 or @i < -1)']:
        try:
            exprs.append(ep.parse(t))
        except Exception:
            pass
    nval = 12 if tier == 'thorough' else 6
    cases = 0
    violations = []
    for e in exprs:
        try:
            parts = split_and(e)
        except ValueError:
            cases += 1
            sat = False
            for env in valuations([e], nval, rnd):
                v = try_eval(e, env)
                if v[0] == 'ok' and v[1] is True:
                    sat = True
                    w = env
                    break
            if sat and len(violations) < 6:
                violations.append({'witness': f'ValueError:{e}', 'what': f'split_and(`{e}`) reports unsatisfiable but {w} satisfies it'[:400]})
            continue
        except Exception:
            continue      # internal errors: C14
        cases += 1
        from specs.tree import refs as _refs
        free_in = _refs(e)
        for r in parts:
            if not _refs(r) <= free_in and len(violations) < 6:
                violations.append({'witness': f'escape:{e}', 'what': f'split_and(`{e}`) returns `{r}` in which a bound variable occurs free'})
        for r in parts:
            if r.data_type != DataType.BOOL and len(violations) < 6:
                violations.append({'witness': f'bool:{e}', 'what': f'split_and(`{e}`) returns non-boolean `{r}`'})
            if not _indivisible(r) and len(violations) < 6:
                violations.append({'witness': f'shape:{e}', 'what': f'split_and(`{e}`) returns divisible conjunct `{r}`'})
        for env in valuations([e] + list(parts), nval, rnd):
            vo = try_eval(e, env)
            if vo[0] != 'ok':
                continue
            vc = _conj(parts, env)
            cases += 1
            if vc[0] != 'ok':
                continue      # strictness corner: a hoisted conjunct errs where the original does not (recorded, not counted)
            if vc[1] != vo[1] and len(violations) < 6:
                violations.append({'witness': f'{e}', 'what': f'split_and(`{e}`) = {[str(p) for p in parts]}: conjunction is {vc[1]} but the input is {vo[1]} under {env}'[:500]})
                break
    return {'obligations_n': 0, 'discharged_n': 0, 'violations': violations, 'faults': [],
            'bounded': {'what': 'split_and vs reference evaluation, shapes, ValueError', 'bound': f'{len(exprs)} boolean expressions x {nval} valuations (incl. empty arrays)',
                        'cases': cases, 'distinct': cases, 'exhaustive': False},
            'samples': [{'expr': 'not (p or q)', 'parts': ['(not p)', '(not q)']}]}


def refactor_semantics(tier='quick', seed=0):
    """C10: f1 and f2 == f; f1 free of the alias; no bound variable escapes; identity when the alias is absent"""
    from hpl.rewrite import refactor_reference, is_true
    from hpl.types import DataType
    from hpl.parser import expression_parser
    from specs.tree import refs, mentions
    rnd = random.Random(seed)
    ep = expression_parser()
    exprs = [e for e in _corpus(seed, 900 if tier == 'thorough' else 200, tier) if e.data_type == DataType.BOOL]
    for t in ['x > 0 and @A.n = 1', '@A.n = 1 and x > 0', 'not (x > 0 or @A.n = 1)', 'not (x > 0 implies @A.n = 1)',
              'forall i in xs: (@i > 0 and @A.n < @i)', 'forall i in xs: (y > 0 and @A.n < @i)', 'forall i in xs: (@A.n > 0 and y > 1)',
              'forall i in @A.arr: (@i > 0 and y > 1)', 'not (exists i in xs: (@i > 0 or @A.n > @i))', 'xs[@A.n] > 0 and y > 0',
              'forall i in xs: (ys[@i] > 0 and @A.n > 0)', 'forall i in xs: (@i > @A.n and @i < @B.w)', 'not not (x > 0 and @A.n = 1)',
              'exists i in xs: (@i > 0 and @A.n = 1)', 'p and q', '@A.ok', 'not @A.ok', '(x > 0 and @A.n = 1) and (@B.w > 0 and y > 1)']:
        try:
            exprs.append(ep.parse(t))
        except Exception:
            pass
    nval = 10 if tier == 'thorough' else 5
    cases = 0
    violations = []
    for e in exprs:
        for alias in ('A', 'B'):
            try:
                f1, f2 = refactor_reference(e, alias)
            except Exception:
                continue
            cases += 1
            if mentions(f1, alias) and len(violations) < 6:
                violations.append({'witness': f'alias:{e}:{alias}', 'what': f'refactor_reference(`{e}`, {alias}): f1 = `{f1}` mentions @{alias}'})
            if not (refs(f1) | refs(f2)) <= refs(e) and len(violations) < 6:
                violations.append({'witness': f'escape:{e}:{alias}', 'what': f'refactor_reference(`{e}`, {alias}) = (`{f1}`, `{f2}`): a bound variable occurs free'})
            if not mentions(e, alias) and not (f1 is e and is_true(f2)) and len(violations) < 6:
                violations.append({'witness': f'identity:{e}:{alias}', 'what': f'`{e}` does not mention @{alias} but the result is (`{f1}`, `{f2}`)'})
            for env in valuations([e, f1, f2], nval, rnd):
                vo = try_eval(e, env)
                if vo[0] != 'ok':
                    continue
                vc = _conj([f1, f2], env)
                cases += 1
                if vc[0] == 'ok' and vc[1] != vo[1] and len(violations) < 6:
                    violations.append({'witness': f'{e}:{alias}', 'what': f'refactor_reference(`{e}`, {alias}) = (`{f1}`, `{f2}`): conjunction is {vc[1]}, input is {vo[1]} under {env}'[:500]})
                    break
        # repeated calls with different aliases must not interfere (statelessness)
        try:
            a1 = refactor_reference(e, 'A')
            refactor_reference(e, 'B')
            a2 = refactor_reference(e, 'A')
            if (str(a1[0]), str(a1[1])) != (str(a2[0]), str(a2[1])) and len(violations) < 6:
                violations.append({'witness': f'stateful:{e}', 'what': f'refactor_reference(`{e}`, A) changes after a call with another alias'})
        except Exception:
            pass
    return {'obligations_n': 0, 'discharged_n': 0, 'violations': violations, 'faults': [],
            'bounded': {'what': 'refactor_reference vs reference evaluation; alias-freeness; variable escape; identity; call order',
                        'bound': f'{len(exprs)} boolean expressions x 2 aliases x {nval} valuations', 'cases': cases, 'distinct': cases, 'exhaustive': False},
            'samples': [{'expr': 'x > 0 and @A.n = 1', 'alias': 'A', 'f1': '(x > 0)', 'f2': '(@A.n = 1)'}]}


def combinators_semantics(tier='quick', seed=0):
    """C13: negate / join; this<->var replacement with the variable bound to the message; alias rewrite of events"""
    from hpl.rewrite import replace_this_with_var, replace_var_with_this
    from hpl.ast.predicates import HplPredicateExpression, HplVacuousTruth, HplContradiction
    from hpl.ast.events import HplSimpleEvent
    from hpl.types import DataType
    from hpl.parser import expression_parser, predicate_parser
    from specs.tree import mentions, mentions_this, binds, refs
    rnd = random.Random(seed)
    ep = expression_parser()
    exprs = [e for e in _corpus(seed, 700 if tier == 'thorough' else 150, tier) if e.data_type == DataType.BOOL]
    for t in ['not not p', 'not not not p', 'x in {0, @A.n}', 'x in {0, y}', 'xs[@A.n] > 0', 'xs[k] > 0 and k > 0',
              '@A.n > 0 and xs[@A.n] > 1', 'x in [0 to @A.n]', 'abs(@A.n) > x', 'forall i in xs: @i > @A.n',
              'forall i in @A.arr: @i > x', '{x, 1} = {1, x}', 'not (x in {0, @A.n})']:
        try:
            exprs.append(ep.parse(t))
        except Exception:
            pass
    nval = 8 if tier == 'thorough' else 4
    cases = 0
    violations = []
    preds = []
    for e in exprs:
        try:
            preds.append(HplPredicateExpression(e))
        except Exception:
            pass
    T, F = HplVacuousTruth(), HplContradiction()
    for p in preds:
        e = p.condition
        try:
            n = p.negate()
        except Exception:
            continue
        for env in valuations([e], nval, rnd):
            vo = try_eval(e, env)
            if vo[0] != 'ok':
                continue
            vn = try_eval(n.condition, env)
            cases += 1
            if vn[0] == 'ok' and vn[1] != (not vo[1]) and len(violations) < 6:
                violations.append({'witness': f'negate:{p}', 'what': f'negate({p}) = {n} is not the logical negation under {env}'[:400]})
                break
        # identity / annihilator
        cases += 1
        if p.join(T) != p or T.join(p) != p or not isinstance(p.join(F), HplContradiction) or not isinstance(F.join(p), HplContradiction):
            if len(violations) < 6:
                violations.append({'witness': f'join-unit:{p}', 'what': f'join with the vacuous truth / contradiction is not identity / annihilator for {p}'})
    for p, q in zip(preds[::3], preds[1::3]):
        try:
            j = p.join(q)
        except TypeError:
            continue
        except Exception:
            continue
        for env in valuations([p.condition, q.condition], nval, rnd):
            a, b = try_eval(p.condition, env), try_eval(q.condition, env)
            if a[0] != 'ok' or b[0] != 'ok':
                continue
            vj = try_eval(j.condition, env)
            cases += 1
            if vj[0] == 'ok' and vj[1] != (a[1] and b[1]) and len(violations) < 6:
                violations.append({'witness': f'join:{p}:{q}', 'what': f'join({p}, {q}) is not the conjunction under {env}'[:400]})
                break
    # this <-> var
    for e in exprs:
        alias = 'ZZ'
        if mentions(e, alias) or binds(e, alias):
            continue
        try:
            r = replace_this_with_var(e, alias)
        except Exception:
            continue
        cases += 1
        if mentions_this(r) and len(violations) < 6:
            violations.append({'witness': f'this2var:{e}', 'what': f'replace_this_with_var(`{e}`) = `{r}` still references the current message'})
        try:
            back = replace_var_with_this(r, alias)
            if back != e and len(violations) < 6:
                violations.append({'witness': f'roundtrip:{e}', 'what': f'replacing this by @{alias} and back gives `{back}`, not `{e}`'})
        except Exception:
            pass
        for env in valuations([e], nval, rnd):
            vo = try_eval(e, env)
            if vo[0] != 'ok':
                continue
            env2 = {'this': {}, 'vars': dict(env['vars'])}
            env2['vars'][alias] = env['this']
            vr = try_eval(r, env2)
            cases += 1
            if (vr[0] != 'ok' or not same_value(vr[1], vo[1])) and len(violations) < 6:
                violations.append({'witness': f'this2var-sem:{e}', 'what': f'`{r}` with @{alias} bound to the message evaluates to {vr}, original `{e}` to {vo[1]!r}'[:400]})
                break
    for e in exprs:
        if not mentions(e, 'A') or binds(e, 'A'):
            continue
        if mentions_this(e):
            # own fields and @A together: only the structural clause of the event rewrite applies
            try:
                ev = HplSimpleEvent.publish('t', HplPredicateExpression(e), alias='A')
                cases += 1
                if 'A' in ev.external_references() or mentions(ev.predicate.condition, 'A'):
                    if len(violations) < 6:
                        violations.append({'witness': f'event-alias:{e}', 'what': f'event `t as A {{{e}}}` still refers to its own alias: {ev.predicate}'})
            except Exception:
                pass
            continue
        try:
            r = replace_var_with_this(e, 'A')
        except Exception:
            continue
        cases += 1
        if mentions(r, 'A') and len(violations) < 6:
            violations.append({'witness': f'var2this:{e}', 'what': f'replace_var_with_this(`{e}`, A) = `{r}` still mentions @A'})
        # the event `t as A {f}` stores f with @A rewritten to the message itself
        try:
            ev = HplSimpleEvent.publish('t', HplPredicateExpression(e), alias='A')
            if 'A' in ev.external_references() or mentions(ev.predicate.condition, 'A'):
                if len(violations) < 6:
                    violations.append({'witness': f'event-alias:{e}', 'what': f'event `t as A {{{e}}}` still refers to its own alias: {ev.predicate}'})
            if ev.predicate.condition != r and len(violations) < 6:
                violations.append({'witness': f'event-alias2:{e}', 'what': f'event `t as A {{{e}}}` stores {ev.predicate}, not the predicate with the fields written directly ({r})'})
        except TypeError:
            pass
        except Exception:
            pass
        for env in valuations([e], nval, rnd):
            vo = try_eval(e, env)
            if vo[0] != 'ok' or not isinstance(env['vars'].get('A'), dict):
                continue
            env2 = {'this': env['vars']['A'], 'vars': {k: v for k, v in env['vars'].items() if k != 'A'}}
            vr = try_eval(r, env2)
            cases += 1
            if (vr[0] != 'ok' or not same_value(vr[1], vo[1])) and len(violations) < 6:
                violations.append({'witness': f'var2this-sem:{e}', 'what': f'`{r}` on the message evaluates to {vr}, original `{e}` with @A bound to it to {vo[1]!r}'[:400]})
                break
    return {'obligations_n': 0, 'discharged_n': 0, 'violations': violations, 'faults': [],
            'bounded': {'what': 'negate/join, this<->var replacement, event alias rewrite vs reference evaluation',
                        'bound': f'{len(preds)} predicates / {len(exprs)} expressions x {nval} valuations', 'cases': cases, 'distinct': cases, 'exhaustive': False},
            'samples': [{'pred': '{ not p }', 'negate': '{ p }'}]}


def totality(tier='quick', seed=0):
    """C14: documented result kinds and no internal error for every accepted input, every built-in function with
    every admissible argument shape"""
    from hpl import rewrite as R
    from hpl.ast.predicates import HplPredicateExpression, HplPredicate
    from hpl.ast.expressions import HplExpression
    from hpl.types import DataType
    from hpl.parser import expression_parser
    from bounded import corpus
    ep = expression_parser()
    exprs = _corpus(seed, 900 if tier == 'thorough' else 200, tier)
    shapes = ['2', 'x', '-3', '{4, 6}', '{x, 2}', '[1 to 3]', '[1 to x]', '![x to 5]!', 'xs', '@A.arr', '"s"', 'abs(x)']
    for f in ['abs', 'bool', 'int', 'float', 'str', 'len', 'sum', 'prod', 'sqrt', 'ceil', 'floor', 'sin', 'cos', 'tan', 'asin',
              'acos', 'atan', 'deg', 'rad', 'max', 'min', 'gcd', 'roll', 'pitch', 'yaw']:
        for a in shapes:
            for tail in (' > 0', ' = y', ''):
                try:
                    exprs.append(ep.parse(f'{f}({a}){tail}'))
                except Exception:
                    pass
    for t in ['1 - x = @v.y', '1 - x = y', '(1 - x) + 1 = y', '2 * x = y', '0 ** x = 1', 'len([1 to x]) > 0', 'gcd({4, 6}) = 2',
              'max({1}) = 1', 'min({x}) = x', 'sum({}) = 0', 'int("5") > 0', 'float("2.5") > x', 'int("-3") = y',
              # a quantified variable that occurs only inside index positions
              'not (exists i in [0 to 3]: xs[@i] > 0)', 'forall i in [0 to 2]: xs[@i] > 0',
              'not (exists i in idx: (xs[@i] > 0 or @A.ok))', 'forall i in idx: (xs[@i] > 0 and @A.arr[@i] = 1)',
              'not (exists i in idx: xs[ys[@i]] > @A.z)']:
        try:
            exprs.append(ep.parse(t))
        except Exception:
            pass
    allowed_simplify = (ZeroDivisionError, ValueError, OverflowError)
    cases = 0
    violations = []
    known = {}

    def record(fn, e, x):
        name = type(x).__name__
        s = str(e)
        k = None
        if fn == 'simplify':
            if name == 'UnboundLocalError' and 'len(' in s and ' to ' in s:
                k = 'F10'
            elif name == 'IndexError' and 'gcd(' in s:
                k = 'F11'
            elif name == 'AssertionError':
                k = 'F12'
            elif name in ('TypeError', 'ValueError') and __import__('re').search(r'(int|float|str|bool|len)\("[^"]*"\)', s):
                k = 'F17'
        if k:
            known[k] = known.get(k, 0) + 1
        elif len(violations) < 6:
            violations.append({'witness': f'{fn}:{e}', 'what': f'{fn}(`{e}`) fails with {name}: {str(x)[:120]}'})
    for e in exprs:
        targets = [e]
        if e.data_type == DataType.BOOL:
            try:
                targets.append(HplPredicateExpression(e))
            except Exception:
                pass
        for t in targets:
            is_pred = isinstance(t, HplPredicate)
            cases += 1
            try:
                r = R.simplify(t)
                if is_pred != isinstance(r, HplPredicate) or (not is_pred and r.data_type != t.data_type):
                    violations.append({'witness': f'kind:simplify:{t}', 'what': f'simplify({t}) returns {type(r).__name__} of another kind/type'})
            except allowed_simplify as x:
                # int("s") / float("s") of a non-numeric text is an undefined constant subexpression (allowed);
                # of a numeric text it is defined: the failure is finding F17 (the payload keeps its quotes)
                import re as _re
                if isinstance(x, ValueError) and _re.search(r'(int|float)\("-?\d+(\.\d+)?"\)', str(t)):
                    known['F17'] = known.get('F17', 0) + 1
            except Exception as x:
                record('simplify', t, x)
            if e.data_type == DataType.BOOL:
                cases += 1
                try:
                    parts = R.split_and(t)
                    if not isinstance(parts, list) or any(not isinstance(p, HplExpression) or p.data_type != DataType.BOOL for p in parts):
                        violations.append({'witness': f'kind:split_and:{t}', 'what': f'split_and({t}) returns something that is not a list of boolean expressions'})
                except ValueError:
                    pass
                except Exception as x:
                    record('split_and', t, x)
                cases += 1
                try:
                    f1, f2 = R.refactor_reference(t, 'A')
                    if isinstance(f1, HplPredicate) != is_pred or isinstance(f2, HplPredicate) != is_pred:
                        violations.append({'witness': f'kind:refactor:{t}', 'what': f'refactor_reference({t}) changes predicate/expression kind'})
                except Exception as x:
                    record('refactor_reference', t, x)
            for fn, args in ((R.replace_this_with_var, ('QQ',)), (R.replace_var_with_this, ('A',))):
                cases += 1
                try:
                    r = fn(t, *args)
                    if isinstance(r, HplPredicate) != is_pred:
                        violations.append({'witness': f'kind:{fn.__name__}:{t}', 'what': f'{fn.__name__}({t}) changes predicate/expression kind'})
                except TypeError as x:
                    if not is_pred:
                        record(fn.__name__, t, x)
                except Exception as x:
                    record(fn.__name__, t, x)
    for P in corpus.properties(seed):
        cases += 1
        try:
            out = R.canonical_form(P)
            if not isinstance(out, list) or not out or any(type(o) is not type(P) for o in out):
                violations.append({'witness': f'kind:canonical_form:{P}', 'what': 'canonical_form does not return a non-empty list of properties'})
        except Exception as x:
            from hpl.errors import HplSanityError
            if isinstance(x, HplSanityError):
                known['F13'] = known.get('F13', 0) + 1
            else:
                record('canonical_form', P, x)
    for k, c in sorted(known.items()):
        violations.append({'witness': k, 'what': f'{c} internal failures of the known class {k}'})
    return {'obligations_n': 0, 'discharged_n': 0, 'violations': violations, 'faults': [],
            'bounded': {'what': 'rewriting functions total with documented result kinds', 'bound': f'{len(exprs)} expressions incl. every built-in function x {len(shapes)} argument shapes; property corpus',
                        'cases': cases, 'distinct': cases, 'exhaustive': False, 'known_classes': known},
            'samples': [{'call': 'simplify(parse("len([1 to 3]) > 0"))'}]}


def sem_axioms_hold(tier='quick', seed=0):
    """A-SEM validation (bounded): the truth-value semantics of specs/sem.py run natively agrees with the reference
    evaluator on boolean expressions, and the axioms assumed by the proofs hold natively on the corpus x valuations:
    stored types do not matter, unmentioned variables do not matter, `len(d) = 0` iff the domain has no members."""
    from hpl.types import DataType
    from hpl.ast.expressions import HplQuantifier
    from hpl.rewrite import empty_test
    from specs import sem
    from specs.tree import mentions
    from specs.typing import with_dt
    from bounded.corpus import all_nodes
    rnd = random.Random(seed)
    exprs = [e for e in _corpus(seed, 600 if tier == 'thorough' else 150, tier)]
    nodes = all_nodes(exprs)
    bools = [e for e in nodes if e.data_type == DataType.BOOL]
    nval = 8 if tier == 'thorough' else 4
    cases = 0
    violations = []

    def bad(w, what):
        if len(violations) < 6:
            violations.append({'witness': w, 'what': what[:400]})
    for e in bools:
        for env in valuations([e], nval, rnd):
            cases += 1
            ref = try_eval(e, env)
            try:
                mine = ('ok', sem.ev(e, env))
            except sem.SemError as x:
                mine = ('err', str(x))
            if ref[0] == 'ok' and isinstance(ref[1], bool):
                if mine != ('ok', ref[1]):
                    bad(f'ev:{e}', f'ev(`{e}`) = {mine} but the reference evaluator gives {ref} under {env}')
            # A-SEM-1: stored type at the root
            try:
                if mine[0] == 'ok' and sem.ev(with_dt(e, DataType.ANY), env) != mine[1]:
                    bad(f'types:{e}', f'value of `{e}` depends on its stored type')
            except sem.SemError:
                pass
            # A-SEM-2: a fresh variable binding does not matter
            for v in ('i', 'zz', 'A'):
                if not mentions(e, v) and mine[0] == 'ok':
                    try:
                        if sem.ev(e, sem.bind(env, v, 7)) != mine[1]:
                            bad(f'frame:{e}', f'value of `{e}` changes when the unmentioned variable {v} is bound')
                    except sem.SemError:
                        bad(f'frame:{e}', f'`{e}` fails when the unmentioned variable {v} is bound')
    # A-SEM-3 on every quantifier domain of the corpus
    for q in [n for n in nodes if isinstance(n, HplQuantifier)]:
        try:
            et = empty_test(q.domain)
        except Exception:
            continue
        for env in valuations([q], nval, rnd):
            cases += 1
            try:
                d = sem.dom(q.domain, env)
                a = sem.atom(et, env)
            except sem.SemError:
                continue
            if a != (len(d) == 0):
                bad(f'empty:{q.domain}', f'`{et}` is {a} but the domain `{q.domain}` has {len(d)} members under {env}')
            for v in ('zz',):
                try:
                    if tuple(sem.dom(q.domain, sem.bind(env, v, 7))) != tuple(d):
                        bad(f'domframe:{q.domain}', f'members of `{q.domain}` change when {v} is bound')
                except sem.SemError:
                    pass
    return {'obligations_n': 0, 'discharged_n': 0, 'violations': violations, 'faults': [],
            'bounded': {'what': 'semantic axioms A-SEM-1..3 and agreement of specs.sem.ev with the reference evaluator',
                        'bound': f'{len(bools)} boolean sub-expressions of the corpus x {nval} valuations',
                        'cases': cases, 'distinct': cases, 'exhaustive': False},
            'samples': [{'text': 'ev(e, rho) == evaluate(e, rho) for boolean e', 'expected': 'equal'}]}
