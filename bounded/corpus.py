"""Small-scope corpus of real HPL ASTs (built by the real parser / constructors of /repo).

Used by the bounded stand-ins, by the replay of counter-models and to cross-check the translation
of spec functions (encoding validation).  Deterministic for a given seed."""
from __future__ import annotations

import itertools
import random
from typing import List

_CACHE = {}

NUM_ATOMS = ['0', '1', '2', 'x', 'y', 'a.b', 'xs[0]', 'xs[1]', '@A.z', '@B.w', '-1', '(-x)', 'len(xs)', 'abs(x)']
BOOL_ATOMS = ['True', 'False', 'p', 'q', '@A.ok', 'not p']
STR_ATOMS = ['"s"', '"t"', 'name']
CMP = ['=', '!=', '<', '<=', '>', '>=']
ARITH = ['+', '-', '*', '/', '**']
LOGIC = ['and', 'or', 'implies', 'iff']


def gen_num(rnd, d):
    if d <= 0 or rnd.random() < 0.3:
        return rnd.choice(NUM_ATOMS)
    k = rnd.random()
    if k < 0.6:
        return f'({gen_num(rnd, d - 1)} {rnd.choice(ARITH)} {gen_num(rnd, d - 1)})'
    if k < 0.7:
        return f'-({gen_num(rnd, d - 1)})'
    if k < 0.8:
        return f'{rnd.choice(["abs", "sqrt", "ceil", "floor", "int", "float"])}({gen_num(rnd, d - 1)})'
    if k < 0.9:
        return f'{rnd.choice(["sum", "prod", "max", "min", "len"])}({gen_coll(rnd, d - 1)})'
    return f'xs[{gen_num(rnd, d - 1)}]'


def gen_coll(rnd, d):
    k = rnd.random()
    if k < 0.35:
        n = rnd.randint(1, 3)
        return '{' + ', '.join(gen_num(rnd, d - 1) for _ in range(n)) + '}'
    if k < 0.7:
        l = rnd.choice(['[', '!['])
        r = rnd.choice([']', ']!'])
        return f'{l}{gen_num(rnd, d - 1)} to {gen_num(rnd, d - 1)}{r}'
    return rnd.choice(['xs', 'ys', '@A.arr'])


def gen_bool(rnd, d, bound=()):
    if d <= 0 or rnd.random() < 0.2:
        k = rnd.random()
        if k < 0.5:
            return f'{gen_num(rnd, 0)} {rnd.choice(CMP)} {gen_num(rnd, 0)}'
        if bound and k < 0.7:
            return f'@{rnd.choice(bound)} {rnd.choice(CMP)} {gen_num(rnd, 0)}'
        return rnd.choice(BOOL_ATOMS)
    k = rnd.random()
    if k < 0.35:
        return f'({gen_bool(rnd, d - 1, bound)} {rnd.choice(LOGIC)} {gen_bool(rnd, d - 1, bound)})'
    if k < 0.5:
        return f'not ({gen_bool(rnd, d - 1, bound)})'
    if k < 0.65:
        return f'{gen_num(rnd, d - 1)} {rnd.choice(CMP)} {gen_num(rnd, d - 1)}'
    if k < 0.75:
        return f'{gen_num(rnd, d - 1)} in {gen_coll(rnd, d - 1)}'
    if k < 0.9:
        v = rnd.choice(['i', 'j', 'k'])
        if v in bound:
            return gen_bool(rnd, d - 1, bound)
        body = gen_bool(rnd, d - 1, bound + (v,))
        q = rnd.choice(['forall', 'exists'])
        return f'({q} {v} in {gen_coll(rnd, d - 1)}: (@{v} {rnd.choice(CMP)} {gen_num(rnd, 0)} {rnd.choice(LOGIC)} {body}))'
    return f'{rnd.choice(STR_ATOMS)} {rnd.choice(["=", "!="])} {rnd.choice(STR_ATOMS)}'


HANDWRITTEN = [
    'x', '1', 'True', '"s"', '@A', '@A.z', 'a.b.c', 'xs[0].y', 'xs[@i]', '{1, 2, x}', '[1 to 3]', '![x to y]!',
    'x + 1', 'x - y * 2', '(x + 1) ** 2', '-x', 'not p', 'p and q', 'p or not q', 'p implies q', 'p iff q',
    'x = 1', 'x != y', 'x < y', 'x in {1, 2}', 'x in [0 to 10]', 'abs(x) > 0', 'len(xs) = 0',
    'forall i in xs: @i > 0', 'exists i in [1 to 3]: xs[@i] = @i', 'forall i in {1,2}: (@i > 0 and x > @i)',
    'forall i in xs: (exists j in ys: @i = @j)', 'max({x, 1, 2}) > 0', 'sum([1 to 3]) = 6', 'PI > 3', 'E < 3',
    '@A.z = x and @B.w > 1', 'not (p or q)', 'not (p implies q)', 'not not p', 'x * 2 = x', 'x / 2 != x',
    '(x = 1) and (forall i in xs: (@i > x and y > 0))', 'not (exists i in xs: @i = 0)',
    '(forall i in xs: @i > 0) and y = @i', '(exists j in ys: @j = 1) or (forall k in {@j, 2}: @k > 0)',
    'forall i in xs: (forall j in ys: (@i > @j and @j > x))',
    'sum({a, 1}) > 0 or a = b', 'prod({a, 2}) > 0 and a = c', 'sum({x, y, 2}) = 3',
    'x + 0 = x', '1 + 2 = 3', 'x - x = 0', 'x / x = 1', 'x * 0 = 0', '(p and q) and p', 'p or (q or p)',
]


def expressions(seed=0, n=300, depth=3) -> List:
    """real HplExpression objects (every node kind), parsed from generated and hand-written texts"""
    key = ('expr', seed, n, depth)
    if key in _CACHE:
        return _CACHE[key]
    from hpl.parser import expression_parser
    parser = expression_parser()
    rnd = random.Random(seed)
    texts = list(HANDWRITTEN)
    for _ in range(n):
        texts.append(gen_bool(rnd, depth) if rnd.random() < 0.7 else gen_num(rnd, depth))
    out = []
    seen = set()
    for t in texts:
        if t in seen:
            continue
        seen.add(t)
        try:
            out.append(parser.parse(t))
        except Exception:
            continue
    _CACHE[key] = out
    return out


def all_nodes(exprs):
    seen = set()
    out = []
    for e in exprs:
        for n in _walk(e):
            k = (type(n).__name__, repr(n))
            if k in seen:
                continue
            seen.add(k)
            out.append(n)
    return out


def _walk(n):
    """independent traversal over the attrs fields (not via children()/iterate())"""
    from specs.tree import slots
    yield n
    for c in slots(n):
        yield from _walk(c)


PROPERTY_TEXTS = [
    'globally: no a', 'globally: some a {x > 0}', 'globally: a causes b', 'globally: a requires b within 1 s',
    'globally: a forbids b within 100 ms', 'after a as A {x > 0}: no b {y = @A.x}',
    'after a: b as B causes c {z > @B.w}', 'until q {p}: some a', 'after a as A until b {x = @A.y}: c requires d',
    'globally: (a or b) causes c', 'globally: (a {x > 1} or b as B {y < 2} or c) forbids d',
    'after (a as X or b as X): c {v = @X.f} causes d', 'globally: a as A requires b {q = @A.r}',
    'globally: no (a or b {x = 1}) within 2 s', 'globally: some (a or b)',
    'after (p or q) until r: (a or b) causes (c or d) within 5 s',
    'globally: a {forall i in xs: @i > 0} causes b {exists j in [1 to 3]: ys[@j] = 0}',
]


def properties(seed=0):
    key = ('prop', seed)
    if key in _CACHE:
        return _CACHE[key]
    from hpl.parser import property_parser
    parser = property_parser()
    out = []
    for t in PROPERTY_TEXTS:
        try:
            out.append(parser.parse(t))
        except Exception:
            pass
    _CACHE[key] = out
    return out


def api_events():
    """events built through the API: every alias x reference placement over a small alphabet, simple and
    two-way disjunctive (including alternatives that reference a sibling's alias)"""
    key = ('api_events',)
    if key in _CACHE:
        return _CACHE[key]
    from hpl.ast.events import HplSimpleEvent, HplEventDisjunction
    from hpl.errors import HplSanityError
    from hpl.parser import predicate_parser
    pp = predicate_parser()
    preds = {}
    for refs in [(), ('A',), ('B',), ('A', 'B')]:
        preds[refs] = pp.parse('{ x > 0' + ''.join(f' and @{r}.v > @{r}.w' for r in refs) + ' }')
    simple = []
    for i, al in enumerate([None, 'A', 'B']):
        for rs in preds:
            simple.append(HplSimpleEvent.publish(f't{i}{len(rs)}{"".join(rs)}', preds[rs], alias=al))
    out = list(simple)
    for e1 in simple[::2]:
        for e2 in simple[1::3]:
            try:
                out.append(HplEventDisjunction(e1, e2))
            except HplSanityError:
                pass
    if len(out) > 4:
        try:
            out.append(HplEventDisjunction(out[-1], simple[0]))
            out.append(HplEventDisjunction(simple[5], out[-2]))
        except HplSanityError:
            pass
    _CACHE[key] = out
    return out
