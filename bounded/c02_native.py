"""Bounded stand-in for C02: exhaustive small grid of scope x pattern x event shapes x alias / reference
placement, through the real constructors and through the parser, compared with the spec `sane`."""
import itertools


def _mk_events():
    from hpl.ast.events import HplSimpleEvent, HplEventDisjunction
    from hpl.parser import predicate_parser
    pp = predicate_parser()
    preds = {}
    for refs in [(), ('A',), ('B',), ('A', 'B')]:
        txt = '{ x > 0' + ''.join(f' and @{r}.v = 1' for r in refs) + ' }'
        preds[refs] = pp.parse(txt)
    return HplSimpleEvent, HplEventDisjunction, preds


def sane_grid(tier='quick', seed=0):
    from hpl.ast.properties import HplScope, HplPattern, HplProperty, PatternType, ScopeType
    from hpl.errors import HplSanityError
    from specs.sanity import sane, wf_scope, wf_pattern
    import contracts.queries_c15_events  # noqa: F401
    Simple, Disj, preds = _mk_events()
    aliases = [None, 'A', 'B']
    refsets = list(preds)

    def events(tag):
        out = []
        for al in aliases:
            for rs in refsets:
                out.append(Simple.publish(tag, preds[rs], alias=al))
        # two-way disjunctions: a few shapes
        for al1, al2 in [(None, None), ('A', None), ('A', 'A'), ('A', 'B')]:
            for rs in [(), ('A',)]:
                try:
                    out.append(Disj(Simple.publish(tag + '1', preds[rs], alias=al1),
                                    Simple.publish(tag + '2', preds[()], alias=al2)))
                except HplSanityError:
                    pass
        return out
    acts = [None] + events('a')
    terms = [None] + events('t')
    behs = events('b')
    trigs = events('g')
    if tier != 'thorough':
        acts, terms, behs, trigs = acts[:9], terms[:7], behs[:14], trigs[:14]
    cases = 0
    violations = []
    distinct_accept = 0
    for a, t in itertools.product(acts, terms):
        st = (ScopeType.GLOBAL if a is None and t is None else ScopeType.AFTER if t is None else
              ScopeType.UNTIL if a is None else ScopeType.AFTER_UNTIL)
        scope = HplScope(st, activator=a, terminator=t)
        for k in PatternType:
            needs_trigger = k in (PatternType.REQUIREMENT, PatternType.RESPONSE, PatternType.PREVENTION)
            for b in behs:
                for g in (trigs if needs_trigger else [None]):
                    pattern = HplPattern(k, b, g)
                    cases += 1
                    expect = sane(scope, pattern)
                    try:
                        HplProperty(scope, pattern)
                        got = True
                    except HplSanityError:
                        got = False
                    distinct_accept += got
                    if got != expect and len(violations) < 5:
                        violations.append({'witness': f'{scope} : {pattern}',
                                           'what': f'HplProperty({scope}: {pattern}) accepted={got}, sane={expect}'})
    return {'obligations_n': 0, 'discharged_n': 0, 'violations': violations, 'faults': [],
            'bounded': {'what': 'acceptance of HplProperty(scope, pattern) vs sane() over a grid of event shapes, aliases and references',
                        'bound': f'{len(acts)} activators x {len(terms)} terminators x 5 patterns x {len(behs)} behaviours x {len(trigs)} triggers',
                        'cases': cases, 'distinct': cases, 'exhaustive': tier == 'thorough', 'accepted': distinct_accept},
            'samples': [{'scope': 'after a as A', 'pattern': 'b {@A.v = 1} causes c', 'sane': True}]}
