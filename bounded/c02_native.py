"""Bounded stand-in for C02: exhaustive small grid of scope x pattern x event shapes x alias / reference
placement, through the real constructors and through the parser, compared with the spec `sane`."""
import itertools


def _mk_events():
    from hpl.ast.events import HplSimpleEvent, HplEventDisjunction
    from hpl.parser import predicate_parser
    pp = predicate_parser()
    preds = {}
    for refs in [(), ('A',), ('B',), ('A', 'B')]:
        txt = '{ x > 0' + ''.join(f' and @{r}.v = 1' for r in refs) + ' }'
        preds[refs] = pp.parse(txt)
    return HplSimpleEvent, HplEventDisjunction, preds


def sane_grid(tier='quick', seed=0):
    from hpl.ast.properties import HplScope, HplPattern, HplProperty, PatternType, ScopeType
    from hpl.errors import HplSanityError
    from specs.sanity import sane, wf_scope, wf_pattern
    import contracts.queries_c15_events  # noqa: F401
    Simple, Disj, preds = _mk_events()
    aliases = [None, 'A', 'B']
    refsets = list(preds)

    def events(tag):
        out = []
        for al in aliases:
            for rs in refsets:
                out.append(Simple.publish(tag, preds[rs], alias=al))
        # two-way disjunctions: a few shapes
        for al1, al2 in [(None, None), ('A', None), ('A', 'A'), ('A', 'B')]:
            for rs in [(), ('A',)]:
                try:
                    out.append(Disj(Simple.publish(tag + '1', preds[rs], alias=al1),
                                    Simple.publish(tag + '2', preds[()], alias=al2)))
                except HplSanityError:
                    pass
        return out
    acts = [None] + events('a')
    terms = [None] + events('t')
    behs = events('b')
    trigs = events('g')
    if tier != 'thorough':
        acts, terms, behs, trigs = acts[:9], terms[:7], behs[:14], trigs[:14]
    cases = 0
    violations = []
    distinct_accept = 0
    for a, t in itertools.product(acts, terms):
        st = (ScopeType.GLOBAL if a is None and t is None else ScopeType.AFTER if t is None else
              ScopeType.UNTIL if a is None else ScopeType.AFTER_UNTIL)
        scope = HplScope(st, activator=a, terminator=t)
        for k in PatternType:
            needs_trigger = k in (PatternType.REQUIREMENT, PatternType.RESPONSE, PatternType.PREVENTION)
            for b in behs:
                for g in (trigs if needs_trigger else [None]):
                    pattern = HplPattern(k, b, g)
                    cases += 1
                    expect = sane(scope, pattern)
                    try:
                        HplProperty(scope, pattern)
                        got = True
                    except HplSanityError:
                        got = False
                    distinct_accept += got
                    if got != expect and len(violations) < 5:
                        violations.append({'witness': f'{scope} : {pattern}',
                                           'what': f'HplProperty({scope}: {pattern}) accepted={got}, sane={expect}'})
    return {'obligations_n': 0, 'discharged_n': 0, 'violations': violations, 'faults': [],
            'bounded': {'what': 'acceptance of HplProperty(scope, pattern) vs sane() over a grid of event shapes, aliases and references',
                        'bound': f'{len(acts)} activators x {len(terms)} terminators x 5 patterns x {len(behs)} behaviours x {len(trigs)} triggers',
                        'cases': cases, 'distinct': cases, 'exhaustive': tier == 'thorough', 'accepted': distinct_accept},
            'samples': [{'scope': 'after a as A', 'pattern': 'b {@A.v = 1} causes c', 'sane': True}]}


def quantifier_hygiene(tier='quick', seed=0):
    """C02 (iv), bounded: a quantifier is accepted iff its variable is used in the body, not used in its
    own domain and not re-bound inside - over quantifier texts built from a small alphabet"""
    from hpl.parser import expression_parser
    from hpl.errors import HplSanityError
    import itertools
    ep = expression_parser()
    doms = ['xs', '{1, 2}', '[1 to 3]', '{@i, 2}', '[@i to 3]', 'ys[@i]', '{@j}']
    bodies = ['@i > 0', 'x > 0', '@j > 0', '(@i > 0 and x > 1)', '(forall i in ys: @i > 0)', '(exists j in ys: @j > @i)',
              '(forall j in ys: x > 0)', '(forall j in {@i}: @j > 0)', '(exists i in ys: @i = 1) or @i = 2']
    cases = 0
    violations = []
    for q, d, b in itertools.product(['forall', 'exists'], doms, bodies):
        text = f'{q} i in {d}: {b}'
        uses = '@i' in b.replace('(forall i in ys: @i > 0)', '').replace('(exists i in ys: @i = 1)', '')
        in_dom = '@i' in d
        rebinds = 'forall i' in b or 'exists i' in b
        inner_ok = True
        if 'forall j in ys: x > 0' in b:
            inner_ok = False      # inner quantifier never uses j
        if '{@j}' == d or ('@j' in b and 'j in' not in b):
            pass                  # free @j is a reference to an outer name: allowed at expression level
        expect = uses and not in_dom and not rebinds and inner_ok
        cases += 1
        try:
            ep.parse(text)
            got = True
        except HplSanityError:
            got = False
        except Exception:
            continue
        if got != expect and len(violations) < 5:
            violations.append({'witness': text, 'what': f'quantifier `{text}` accepted={got}, expected={expect}'})
    return {'obligations_n': 0, 'discharged_n': 0, 'violations': violations, 'faults': [],
            'bounded': {'what': 'quantifier hygiene (variable used in body, absent from domain, not re-bound)',
                        'bound': f'2 quantifiers x {len(doms)} domains x {len(bodies)} bodies', 'cases': cases,
                        'distinct': cases, 'exhaustive': True},
            'samples': [{'text': 'forall i in {@i, 2}: @i > 0', 'expected': 'rejected'}]}


def channel_grid(tier='quick', seed=0):
    """C02 (iii), bounded: HplEventDisjunction construction is rejected iff a channel repeats - every nesting
    shape of 2..4 simple events over a 3-channel alphabet, through the API and through the parser"""
    import itertools
    from hpl.ast.events import HplSimpleEvent, HplEventDisjunction
    from hpl.errors import HplSanityError
    from hpl.parser import property_parser
    pp = property_parser()
    cases = 0
    violations = []

    def shapes(leaves):
        if len(leaves) == 1:
            yield leaves[0]
            return
        for k in range(1, len(leaves)):
            for l in shapes(leaves[:k]):
                for r in shapes(leaves[k:]):
                    yield (l, r)

    def build(t):
        if isinstance(t, str):
            return HplSimpleEvent.publish(t)
        return HplEventDisjunction(build(t[0]), build(t[1]))
    for n in (2, 3, 4):
        for names in itertools.product('abc', repeat=n):
            expect = len(set(names)) == n
            for shape in shapes(list(names)):
                cases += 1
                try:
                    build(shape)
                    got = True
                except HplSanityError:
                    got = False
                if got != expect and len(violations) < 5:
                    violations.append({'witness': f'disjunction{shape}', 'what': f'disjunction {shape} accepted={got} but channels distinct={expect}'})
            text = 'globally: no (' + ' or '.join(names) + ')'
            cases += 1
            try:
                pp.parse(text)
                got = True
            except HplSanityError:
                got = False
            if got != expect and len(violations) < 5:
                violations.append({'witness': text, 'what': f'`{text}` accepted={got} but channels distinct={expect}'})
    return {'obligations_n': 0, 'discharged_n': 0, 'violations': violations, 'faults': [],
            'bounded': {'what': 'duplicate-channel rejection over all nesting shapes', 'bound': '2..4 events, 3 channels, all binary nestings + parser',
                        'cases': cases, 'distinct': cases, 'exhaustive': True},
            'samples': [{'text': 'globally: no (a or b or a)', 'expected': 'rejected'}]}
