"""Reference semantics of HPL expressions on concrete valuations (strict evaluation), used natively by the
bounded stand-ins of C08, C09, C10, C13, C14 and by replay.  Choices (docs are 'TBD'; stated in DESIGN section 5):
strict evaluation (every sub-expression is evaluated; an error anywhere is an error); a string literal denotes
the text between its quotes; `in` on a range tests the real interval with the bracket exclusivity; a range used
as a quantifier domain or under len/sum/prod/max/min denotes its integer members (empty when lo > hi)."""
from __future__ import annotations

import itertools
import math
import random


class EvalError(Exception):
    pass


class Rng:
    def __init__(self, lo, hi, exlo, exhi):
        self.lo, self.hi, self.exlo, self.exhi = lo, hi, exlo, exhi

    def contains(self, v):
        if isinstance(v, bool) or not isinstance(v, (int, float)):
            raise EvalError('non-number in range test')
        a = v > self.lo if self.exlo else v >= self.lo
        b = v < self.hi if self.exhi else v <= self.hi
        return a and b

    def members(self):
        lo = math.floor(self.lo) + 1 if (self.exlo and self.lo == math.floor(self.lo)) else math.ceil(self.lo)
        hi = math.ceil(self.hi) - 1 if (self.exhi and self.hi == math.ceil(self.hi)) else math.floor(self.hi)
        if hi - lo > 2000:
            raise EvalError('range too large')
        return list(range(int(lo), int(hi) + 1))


def _num(v):
    if isinstance(v, bool) or not isinstance(v, (int, float)):
        raise EvalError(f'number expected, got {v!r}')
    if isinstance(v, float) and (math.isnan(v) or math.isinf(v)):
        raise EvalError('non-finite number')
    return v


def _bool(v):
    if not isinstance(v, bool):
        raise EvalError(f'boolean expected, got {v!r}')
    return v


def members(v):
    if isinstance(v, Rng):
        return v.members()
    if isinstance(v, (list, tuple)):
        return list(v)
    raise EvalError('not a collection')


def evaluate(e, env):
    """env: {'this': dict, 'vars': {name: value}}"""
    from hpl.ast.expressions import (HplLiteral, HplThisMessage, HplVarReference, HplFieldAccess, HplArrayAccess,
                                     HplSet, HplRange, HplUnaryOperator, HplBinaryOperator, HplFunctionCall, HplQuantifier)
    if isinstance(e, HplLiteral):
        v = e.value
        if isinstance(v, str) and len(v) >= 2 and v[0] == '"' and v[-1] == '"':
            return v[1:-1]
        if isinstance(v, float) and (math.isnan(v) or math.isinf(v)):
            raise EvalError('non-finite literal')
        return v
    if isinstance(e, HplThisMessage):
        return env['this']
    if isinstance(e, HplVarReference):
        n = e.token[1:]
        if n not in env['vars']:
            raise EvalError(f'unbound variable {n}')
        return env['vars'][n]
    if isinstance(e, HplFieldAccess):
        m = evaluate(e.message, env)
        if not isinstance(m, dict) or e.field not in m:
            raise EvalError(f'no field {e.field}')
        return m[e.field]
    if isinstance(e, HplArrayAccess):
        a = evaluate(e.array, env)
        i = _num(evaluate(e.index, env))
        if not isinstance(a, (list, tuple)) or i != int(i) or not (0 <= int(i) < len(a)):
            raise EvalError('bad index')
        return a[int(i)]
    if isinstance(e, HplSet):
        return tuple(evaluate(v, env) for v in e.values)
    if isinstance(e, HplRange):
        return Rng(_num(evaluate(e.min_value, env)), _num(evaluate(e.max_value, env)), e.exclude_min, e.exclude_max)
    if isinstance(e, HplUnaryOperator):
        v = evaluate(e.operand, env)
        if e.operator.is_not:
            return not _bool(v)
        return -_num(v)
    if isinstance(e, HplBinaryOperator):
        a = evaluate(e.operand1, env)
        b = evaluate(e.operand2, env)
        t = e.operator.token
        if t in ('and', 'or', 'implies', 'iff'):
            a, b = _bool(a), _bool(b)
            return {'and': a and b, 'or': a or b, 'implies': (not a) or b, 'iff': a == b}[t]
        if t in ('+', '-', '*', '/', '**'):
            a, b = _num(a), _num(b)
            try:
                if t == '+':
                    r = a + b
                elif t == '-':
                    r = a - b
                elif t == '*':
                    r = a * b
                elif t == '/':
                    r = a / b
                else:
                    r = a ** b
            except (ZeroDivisionError, OverflowError, ValueError) as x:
                raise EvalError(str(x))
            if isinstance(r, complex):
                raise EvalError('complex result')
            return _num(r)
        if t in ('=', '!='):
            if type(a) is bool or type(b) is bool:
                if type(a) is not type(b):
                    raise EvalError('comparing bool with non-bool')
            elif isinstance(a, str) != isinstance(b, str):
                raise EvalError('comparing string with non-string')
            elif isinstance(a, (dict, list, tuple, Rng)) or isinstance(b, (dict, list, tuple, Rng)):
                raise EvalError('comparing compound values')
            return (a == b) if t == '=' else (a != b)
        if t in ('<', '<=', '>', '>='):
            a, b = _num(a), _num(b)
            return {'<': a < b, '<=': a <= b, '>': a > b, '>=': a >= b}[t]
        if t == 'in':
            if isinstance(b, Rng):
                return b.contains(a)
            if isinstance(b, (list, tuple)):
                return any(type(x) is type(a) and x == a or (not isinstance(a, (bool, str)) and not isinstance(x, (bool, str))
                                                             and isinstance(x, (int, float)) and x == a) for x in b)
            raise EvalError('in on non-collection')
        raise EvalError(f'operator {t}')
    if isinstance(e, HplQuantifier):
        dom = members(evaluate(e.domain, env))
        results = []
        for m in dom:
            vs = dict(env['vars'])
            vs[e.variable] = m
            results.append(_bool(evaluate(e.condition, {'this': env['this'], 'vars': vs})))
        return all(results) if e.is_universal else any(results)
    if isinstance(e, HplFunctionCall):
        args = [evaluate(a, env) for a in e.arguments]
        return call(e.function.name, args)
    raise EvalError(f'node {type(e).__name__}')


def call(name, args):
    try:
        if name == 'abs':
            return abs(_num(args[0]))
        if name == 'bool':
            return bool(args[0])
        if name == 'int':
            return int(args[0])
        if name == 'float':
            return float(args[0])
        if name == 'str':
            v = args[0]
            return v if isinstance(v, str) else str(v)
        if name in ('len', 'sum', 'prod', 'max', 'min') and len(args) == 1:
            v = args[0]
            if isinstance(v, str) and name == 'len':
                return len(v)
            ms = members(v)
            if name == 'len':
                return len(ms)
            ms = [_num(x) for x in ms]
            if name == 'sum':
                return sum(ms)
            if name == 'prod':
                r = 1
                for x in ms:
                    r *= x
                return r
            if not ms:
                raise EvalError('max/min of nothing')
            return max(ms) if name == 'max' else min(ms)
        if name in ('max', 'min'):
            ms = [_num(x) for x in args]
            return max(ms) if name == 'max' else min(ms)
        if name == 'sqrt':
            return math.sqrt(_num(args[0]))
        if name == 'ceil':
            return math.ceil(_num(args[0]))
        if name == 'floor':
            return math.floor(_num(args[0]))
        if name == 'log':
            return math.log(_num(args[0]), _num(args[1]))
        if name in ('sin', 'cos', 'tan', 'asin', 'acos', 'atan'):
            return getattr(math, name)(_num(args[0]))
        if name == 'atan2':
            return math.atan2(_num(args[0]), _num(args[1]))
        if name == 'deg':
            return math.degrees(_num(args[0]))
        if name == 'rad':
            return math.radians(_num(args[0]))
        if name == 'gcd':
            return math.gcd(*[int(_num(x)) for x in args])
    except EvalError:
        raise
    except Exception as x:
        raise EvalError(f'{name}: {x}')
    raise EvalError(f'function {name} not modelled')


# ------------------------------------------------------------------------------------------------
# valuations
# ------------------------------------------------------------------------------------------------

NUMS = [0, 1, -1, 2, 0.5, 3]
ARRS = [[], [1], [0, 2], [1, 1, 3], [-1, 0, 2, 5]]


def _kind(node):
    from hpl.types import DataType as D
    d = node.data_type
    if d == D.BOOL:
        return 'bool'
    if d == D.STRING:
        return 'str'
    if d == D.ARRAY:
        return 'arr'
    if d == D.MESSAGE:
        return 'msg'
    if d & D.NUMBER:
        return 'num'
    if d & D.BOOL:
        return 'bool'
    if d & D.STRING:
        return 'str'
    if d & D.ARRAY:
        return 'arr'
    return 'num'


def reference_paths(e):
    """(root, path tuple, kind) for every maximal field path; root = 'this' or a variable name"""
    from hpl.ast.expressions import HplFieldAccess, HplArrayAccess, HplThisMessage, HplVarReference, HplQuantifier
    from specs.tree import slots
    out = {}
    bound = set()

    def chain(n):
        if isinstance(n, HplThisMessage):
            return ('this', ())
        if isinstance(n, HplVarReference):
            return (n.token[1:], ())
        if isinstance(n, HplFieldAccess):
            c = chain(n.message)
            return None if c is None else (c[0], c[1] + (n.field,))
        if isinstance(n, HplArrayAccess):
            c = chain(n.array)
            return None if c is None else (c[0], c[1] + ('[]',))
        return None

    def walk(n, top=True):
        if isinstance(n, HplQuantifier):
            bound.add(n.variable)
        c = chain(n)
        if c is not None and top:
            out.setdefault(c, set()).add(_kind(n))
        if isinstance(n, HplArrayAccess):
            walk(n.array, False)
            walk(n.index, True)
            return
        if isinstance(n, HplFieldAccess):
            walk(n.message, False)
            return
        for ch in slots(n):
            walk(ch, True)
    walk(e)
    return out, bound


class _Fixed:
    """a 'random' source that always picks the i-th grid value: the corner valuations (all 0 / all 1)"""

    def __init__(self, i):
        self.i = i

    def choice(self, seq):
        return seq[self.i % len(seq)]


def _leaf(kind, rnd):
    if kind == 'bool':
        return rnd.choice([True, False])
    if kind == 'str':
        return rnd.choice(['', 's', 't'])
    if kind == 'arr':
        return list(rnd.choice(ARRS))
    if kind == 'msg':
        return {}
    return rnd.choice(NUMS)


def _insert(tree, path, value):
    """place value at path inside nested dict/list structure; '[]' means: every element of a 3-element array"""
    if not path:
        return value
    head, rest = path[0], path[1:]
    if head == '[]':
        if not isinstance(tree, list) or (tree and not isinstance(tree[0], (dict, list)) and rest):
            tree = [None, None, None]
        if not isinstance(tree, list) or len(tree) < 3:
            tree = [None, None, None]
        return [_insert(copy_of(x), rest, value) for x in tree]
    if not isinstance(tree, dict):
        tree = {}
    tree = dict(tree)
    tree[head] = _insert(tree.get(head), rest, value)
    return tree


def copy_of(x):
    import copy
    return copy.deepcopy(x)


def valuations(exprs, n, rnd):
    """n random valuations giving a value to every reference path of the expressions"""
    paths = {}
    bound = set()
    for e in exprs:
        p, b = reference_paths(e)
        for k, kinds in p.items():
            paths.setdefault(k, set()).update(kinds)
        bound |= b
    out = []
    for it in range(n):
        rnd_outer = rnd
        if it < 2:
            rnd = _Fixed(it)       # first two valuations: every number 0 / every number 1 (equal pairs, zeros)
        roots = {}
        for (root, path), kinds in sorted(paths.items(), key=lambda kv: (kv[0][0], len(kv[0][1]), kv[0][1])):
            kind = sorted(kinds)[0] if len(kinds) == 1 else rnd.choice(sorted(kinds))
            if not path:
                if root not in roots:
                    roots[root] = _leaf(kind if kind != 'msg' else 'num', rnd) if root in bound or kind != 'msg' else {}
                continue
            val = _leaf(kind, rnd)
            if path[-1] == '[]' and kind != 'arr':
                roots[root] = _insert(roots.get(root) if isinstance(roots.get(root), (dict, list)) else ({} if path[0] != '[]' else []),
                                      path[:-1], [_leaf(kind, rnd) for _ in range(3)])
            else:
                cur = roots.get(root)
                if not isinstance(cur, (dict, list)):
                    cur = {} if path[0] != '[]' else []
                roots[root] = _insert(cur, path, val)
        this = roots.pop('this', {})
        if not isinstance(this, dict):
            this = {}
        out.append({'this': this, 'vars': roots})
        rnd = rnd_outer
    return out


def try_eval(e, env):
    try:
        return ('ok', evaluate(e, env))
    except EvalError as x:
        return ('err', str(x))
    except (TypeError, ValueError, KeyError, IndexError, OverflowError, ZeroDivisionError, RecursionError) as x:
        return ('err', f'{type(x).__name__}: {x}')


def same_value(a, b):
    if isinstance(a, bool) or isinstance(b, bool):
        return type(a) is type(b) and a == b
    if isinstance(a, (int, float)) and isinstance(b, (int, float)):
        return a == b or abs(a - b) <= 1e-9 * max(1.0, abs(a), abs(b))
    if isinstance(a, Rng) and isinstance(b, Rng):
        return (a.lo, a.hi, a.exlo, a.exhi) == (b.lo, b.hi, b.exlo, b.exhi)
    return a == b
