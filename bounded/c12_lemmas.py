"""C12 - splitting a pattern over event alternatives preserves trace semantics.

Lemmas over the first-order trace semantics `sat` (formalisation of docs/lang.md written here, assumption
A-SEM), discharged by z3 for traces of unbounded length and dense time.  A trace is an uninterpreted
timed sequence; event matching is an uninterpreted predicate of the message index and of the index of
the message bound by the earlier event (alias bindings); the scope is an arbitrary window predicate
(so every reading of re-activation is covered); the time bound is optional.
The split table (which position of which pattern kind is distributed) is taken from specs.canon -
the decomposition that C11 proves the code implements."""
import time

import z3

I = z3.IntSort()
B = z3.BoolSort()


def _ctx():
    n = z3.Int('n')                               # trace length
    t = z3.Function('time', I, z3.RealSort())
    inscope = z3.Function('inscope', I, B)        # arbitrary scope window
    bound = z3.Real('bound')                      # max_time (optional: has_bound)
    has_bound = z3.Bool('has_bound')
    t0 = z3.Real('t0')                            # start of the scope (for unary patterns)
    i, j = z3.Ints('i j')
    mono = z3.ForAll([i, j], z3.Implies(z3.And(0 <= i, i <= j, j < n), t(i) <= t(j)))

    def idx(k):
        return z3.And(0 <= k, k < n, inscope(k))

    def within0(k):
        return z3.Or(z3.Not(has_bound), t(k) - t0 <= bound)

    def within(a, b):
        return z3.Or(z3.Not(has_bound), t(b) - t(a) <= bound)
    return dict(n=n, t=t, idx=idx, within0=within0, within=within, mono=mono, i=i, j=j)


def sat_pattern(c, kind, trig, beh):
    """trig / beh: python functions (index, bound index) -> z3 Bool"""
    i, j = c['i'], c['j']
    idx, within0, within = c['idx'], c['within0'], c['within']
    if kind == 'ABSENCE':
        return z3.ForAll([j], z3.Implies(z3.And(idx(j), within0(j)), z3.Not(beh(j, j))))
    if kind == 'EXISTENCE':
        return z3.Exists([j], z3.And(idx(j), within0(j), beh(j, j)))
    if kind == 'RESPONSE':
        return z3.ForAll([i], z3.Implies(z3.And(idx(i), trig(i, i)),
                                         z3.Exists([j], z3.And(j > i, idx(j), within(i, j), beh(j, i)))))
    if kind == 'PREVENTION':
        return z3.ForAll([i], z3.Implies(z3.And(idx(i), trig(i, i)),
                                         z3.ForAll([j], z3.Implies(z3.And(j > i, idx(j), within(i, j)), z3.Not(beh(j, i))))))
    if kind == 'REQUIREMENT':
        return z3.ForAll([j], z3.Implies(z3.And(idx(j), beh(j, j)),
                                         z3.Exists([i], z3.And(i < j, idx(i), within(i, j), trig(i, j)))))
    raise ValueError(kind)


def split_lemma(kind, pos):
    """sat(P[pos := X or Y])  <=>  sat(P[pos := X]) and sat(P[pos := Y])   for arbitrary X, Y and other event"""
    c = _ctx()
    X = z3.Function('X', I, I, B)
    Y = z3.Function('Y', I, I, B)
    O = z3.Function('O', I, I, B)
    XY = lambda a, b: z3.Or(X(a, b), Y(a, b))
    x = lambda a, b: X(a, b)
    y = lambda a, b: Y(a, b)
    o = lambda a, b: O(a, b)
    if pos == 'behaviour':
        whole, p1, p2 = sat_pattern(c, kind, o, XY), sat_pattern(c, kind, o, x), sat_pattern(c, kind, o, y)
    else:
        whole, p1, p2 = sat_pattern(c, kind, XY, o), sat_pattern(c, kind, x, o), sat_pattern(c, kind, y, o)
    return [c['mono']], whole == z3.And(p1, p2)


def lemmas(tier='quick', seed=0):
    from hpl.ast.properties import PatternType
    from specs.canon import split_position
    obs = []
    violations = []
    samples = []
    t0 = time.time()
    table = {k.name: split_position(k) for k in PatternType}
    for kind, pos in table.items():
        if pos is None:
            continue
        hyps, goal = split_lemma(kind, pos)
        s = z3.Solver()
        s.set('timeout', 20000)
        s.add(*hyps)
        s.add(z3.Not(goal))
        r = s.check()
        obs.append((f'split {kind}/{pos}', r == z3.unsat))
        if len(samples) < 2:
            samples.append({'lemma': f'sat(P[{pos}:=X or Y]) <=> sat(P[{pos}:=X]) and sat(P[{pos}:=Y]) for {kind}',
                            'result': str(r), 'goal': str(goal)[:300]})
        if r == z3.sat:
            violations.append({'witness': f'{kind}/{pos}', 'what': f'distributing the {pos} of {kind} over alternatives '
                                                                  f'does not preserve trace semantics: {str(s.model())[:400]}'})
    # sanity of the semantics itself: the splits the statement forbids are indeed not meaning-preserving
    controls = [('EXISTENCE', 'behaviour'), ('RESPONSE', 'behaviour'), ('REQUIREMENT', 'trigger')]
    for kind, pos in controls:
        hyps, goal = split_lemma(kind, pos)
        s = z3.Solver()
        s.set('timeout', 20000)
        s.add(*hyps)
        s.add(z3.Not(goal))
        r = s.check()
        obs.append((f'control: {kind}/{pos} is refutable', r == z3.sat))
    bad = [n for n, ok in obs if not ok]
    faults = [f'lemma not decided: {n}' for n in bad if not any(v['witness'] in n for v in violations)]
    return {'obligations_n': len(obs), 'discharged_n': len(obs) - len(bad), 'violations': violations,
            'faults': [] if not faults else faults[:3], 'samples': samples,
            'split_table': table, 'solver_time': round(time.time() - t0, 2)}
