"""Bounded stand-ins for C03 / C04 / C05 (native, on the real parser and rewriting functions)."""
import random


def _rewrites():
    from hpl import rewrite as R
    from hpl.ast.predicates import HplPredicateExpression

    def split(e):
        return R.split_and(e)

    def refA(e):
        return list(R.refactor_reference(e, 'A'))

    def this2var(e):
        return [R.replace_this_with_var(e, 'M')]

    def var2this(e):
        return [R.replace_var_with_this(e, 'A')]

    def simp(e):
        return [R.simplify(e)]
    return {'simplify': simp, 'split_and': split, 'refactor_reference': refA, 'replace_this_with_var': this2var,
            'replace_var_with_this': var2this}


def wt_outputs(tier='quick', seed=0):
    """C03 (bounded part): wt() holds on every node of parser outputs and of rewriting outputs (compositions <= 2)"""
    from bounded import corpus
    from specs.typing import wt
    from specs.tree import slots
    import contracts.typing_c03  # noqa: F401
    n = 800 if tier == 'thorough' else 150
    exprs = corpus.expressions(seed, n, 3)
    rw = _rewrites()
    cases = 0
    violations = []
    f16 = 0

    def args_unnarrowed(e):
        # F16: an argument of a function call keeps a type set outside every accepting parameter type
        from hpl.ast.expressions import HplFunctionCall
        if isinstance(e, HplFunctionCall):
            tys = tuple(a.data_type for a in e.arguments)
            for sig in e.function.overloads:
                if sig.accepts(tys):
                    ps = list(sig.parameters) + [sig.variadic] * max(0, len(tys) - len(sig.parameters))
                    if all((t & p) == t for t, p in zip(tys, ps)):
                        return False
            return True
        return False

    def walk(e):
        yield e
        for c in slots(e):
            yield from walk(c)

    def check(e, how):
        nonlocal cases, f16
        cases += 1
        for node in walk(e):
            if args_unnarrowed(node):
                f16 += 1
        if not wt(e) and len(violations) < 5:
            bad = next((x for x in walk(e) if not wt(x) and all(wt(c) for c in slots(x))), e)
            violations.append({'witness': f'{how}: {e}', 'what': f'ill-typed node `{bad}` ({bad.data_type!r}) in the result of {how} on an accepted input'})
    for e in exprs:
        check(e, 'parse')
        firsts = []
        for name, f in rw.items():
            if name in ('split_and', 'refactor_reference') and not e.can_be_bool:
                continue
            try:
                outs = f(e)
            except Exception:
                continue
            for o in outs:
                check(o, name)
                firsts.append((name, o))
        if tier == 'thorough':
            for n1, o in firsts[:4]:
                for name, f in rw.items():
                    if name in ('split_and', 'refactor_reference') and not o.can_be_bool:
                        continue
                    try:
                        for o2 in f(o):
                            check(o2, f'{name} after {n1}')
                    except Exception:
                        continue
    # texts that are either rejected or must yield a well-typed AST (quantifier element types, shared references)
    from hpl.parser import predicate_parser
    pp = predicate_parser()
    extra = ['{ forall i in [0 to 3]: (@i = "a") }', '{ forall i in {1, 2}: (@i = "a") }', '{ exists i in {"a", "b"}: @i > 1 }',
             '{ forall i in [0 to 3]: (@i = x and x) }', '{ a > 0 and a = b and a }', '{ a = b and b = c and a > 0 and c }',
             '{ a and (a = b) and b > 0 }', '{ forall i in xs: (@i > 0 and @i) }', '{ x > 0 and (forall i in {x, "s"}: @i = x) }']
    for text in extra:
        cases += 1
        try:
            p = pp.parse(text)
        except (TypeError, Exception):
            continue
        e = p.condition
        groups = {}
        for node in walk(e):
            if node.is_accessor or (node.is_value and node.is_variable):
                groups.setdefault(str(node), []).append(node.data_type)
        shared = True
        for k, tys in groups.items():
            m = tys[0]
            for t in tys[1:]:
                m = m & t
            if not m:
                shared = False
        if (not wt(e) or not shared) and len(violations) < 5:
            violations.append({'witness': text, 'what': f'`{text}` is accepted but its AST is not well-typed '
                                                       f'({"occurrences of a reference share no type" if not shared else "node-level"})'})
    if f16:
        violations.append({'witness': 'F16', 'what': f'{f16} function-call arguments keep a type set outside the parameter type (e.g. abs(a): a stays Bool|Number|String)'})
    return {'obligations_n': 0, 'discharged_n': 0, 'violations': violations, 'faults': [],
            'bounded': {'what': 'wt() on every node of parser and rewriting outputs', 'bound': f'{len(exprs)} expressions x 5 rewriting functions' + (' x depth 2' if tier == 'thorough' else ''),
                        'cases': cases, 'distinct': cases, 'exhaustive': False, 'F16_occurrences': f16},
            'samples': [{'check': 'wt(simplify(parse("x + 0 = x")))'}]}


NUM = ['1', 'x', '(x + y)', 'abs(x)', 'len(xs)', 'xs[0]', '@A.n', '-x']
BOOLS = ['p', '(x > 1)', 'not p', '(p and q)', '@A.ok', '(x in {1, 2})']
STR = ['"s"', 'name']
CLASH_NUM = ['"s"', 'True', '(p and q)', '{1, 2}', '[1 to 2]', '(not p)']        # definitely not numbers
CLASH_BOOL = ['1', '"s"', '(x + 1)', 'abs(x)', '{1}', '(-x)']                  # definitely not booleans


def clash_injection(tier='quick', seed=0):
    """C05 (bounded part): one definite clash at any argument position => TypeError, never an AST"""
    from hpl.parser import expression_parser, predicate_parser
    ep = expression_parser()
    pp = predicate_parser()
    rnd = random.Random(seed)
    templates = [
        ('{a} + {b} > 0', 'nn'), ('{a} * {b} = {c}', 'nnn'), ('-({a}) < {b}', 'nn'), ('{a} ** 2 >= {b}', 'nn'),
        ('abs({a}) > {b}', 'nn'), ('{a} in [{b} to {c}]', 'xnn'), ('xs[{a}] > {b}', 'nn'), ('sqrt({a}) > 0', 'n'),
        ('not {a}', 'b'), ('{a} and {b}', 'bb'), ('{a} or {b}', 'bb'), ('{a} implies {b}', 'bb'), ('{a} iff {b}', 'bb'),
        ('forall i in xs: ({a} and @i > {b})', 'bn'), ('exists i in [{a} to {b}]: @i > {c}', 'nnn'),
        ('max({a}, {b}) > 0', 'nn'), ('{a} < {b} and {c}', 'nnb'),
    ]
    cases = 0
    violations = []
    controls_rejected = 0
    for tpl, kinds in templates:
        names = 'abc'[:len(kinds)]
        for trial in range(6 if tier == 'thorough' else 3):
            good = {nm: rnd.choice(NUM if k in 'nx' else BOOLS) for nm, k in zip(names, kinds)}
            try:
                ep.parse(tpl.format(**good))
            except TypeError:
                controls_rejected += 1
                continue
            except Exception:
                continue
            for nm, k in zip(names, kinds):
                if k == 'x':
                    continue      # the left side of `in` may be any primitive
                for bad in (CLASH_NUM if k == 'n' else CLASH_BOOL):
                    args = dict(good)
                    args[nm] = bad
                    text = tpl.format(**args)
                    cases += 1
                    try:
                        ep.parse(text)
                        ok = True
                    except TypeError:
                        ok = False
                    except Exception:
                        continue
                    if ok and len(violations) < 5:
                        violations.append({'witness': text, 'what': f'`{text}` has a definite type clash ({bad} where a {"number" if k == "n" else "boolean"} is needed) but is accepted'})
    # same reference at two disjoint types; non-boolean predicate
    for text in ['{ a > 0 and a }', '{ len(a) > 0 and a > 1 }', '{ x + 1 }', '{ "s" }', '{ a = "s" and a < 1 }', '{ xs[0] and xs[0] > 1 }']:
        cases += 1
        try:
            pp.parse(text)
            if text not in ('{ len(a) > 0 and a > 1 }',):
                violations.append({'witness': text, 'what': f'`{text}` is accepted although it requires incompatible types'})
            else:
                violations.append({'witness': 'F16', 'what': 'a reference used as function argument and at a disjoint type is accepted (arguments are not narrowed): { len(a) > 0 and a > 1 }'})
        except TypeError:
            pass
    # one reference used at two disjoint types with loosely typed uses of it in between, in every order
    # (compatibility of consecutive uses is not transitive: all uses must share one type)
    import itertools
    uses = {'n': '({r} + 1 > 0)', 'b': '{r}', 's': '({r} = "txt")', 'p': '({r} = other)', 'q': '(other2 != {r})'}
    for r in ['a', 'xs[0]', 'm.f', '@A.v']:
        for n in (2, 3, 4):
            for combo in itertools.product('nbspq', repeat=n):
                typed = {k for k in combo if k in 'nbs'}
                if len(typed) < 2 or (n == 4 and (combo.count('p') + combo.count('q')) < 2):
                    continue
                text = '{ ' + ' and '.join(uses[k].format(r=r) for k in combo) + ' }'
                cases += 1
                try:
                    pp.parse(text)
                    if len(violations) < 8:
                        violations.append({'witness': text, 'what': f'`{text}` uses {r} at disjoint types but is accepted'})
                except TypeError:
                    pass
                except Exception:
                    continue
    return {'obligations_n': 0, 'discharged_n': 0, 'violations': violations, 'faults': [],
            'bounded': {'what': 'single definite clash injected at every argument position; one reference at two disjoint types in every order with neutral uses between', 'bound': f'{len(templates)} templates x positions x {len(CLASH_NUM)} clashing fillers',
                        'cases': cases, 'distinct': cases, 'exhaustive': False},
            'samples': [{'text': '"s" + x > 0', 'expected': 'TypeError'}]}


def typed_generation(tier='quick', seed=0):
    """C04 (bounded part): predicates generated type-directedly from a schema are accepted, the inferred type
    set of every reference contains its schema type, and the schema check of the enclosing property succeeds"""
    from hpl.parser import property_parser
    from hpl.types import MessageType, ArrayType, INT8, FLOAT64, BOOLEANS, STRINGS, DataType
    pp = property_parser()
    rnd = random.Random(seed)
    inner = MessageType('I', fields={'z': INT8, 'w': STRINGS, 'b': BOOLEANS})
    m = MessageType('M', fields={'k': INT8, 'f': FLOAT64, 'flag': BOOLEANS, 's': STRINGS, 'arr': ArrayType('a', INT8),
                                 'inner': inner, 'msgs': ArrayType('ms', inner, length=2)}, constants={'C': (INT8, 1)})
    # the aliased channel has a different schema (no field name in common with the current message)
    inner2 = MessageType('I2', fields={'bz': INT8})
    m2 = MessageType('M2', fields={'bk': INT8, 'bflag': BOOLEANS, 'bs': STRINGS, 'barr': ArrayType('ba', INT8),
                                   'binner': inner2})
    schema = {'a': m, 'b': m2}
    nums = ['k', 'f', 'C', 'inner.z', 'arr[0]', 'arr[k]', 'msgs[1].z', '@B.bk', '@B.binner.bz', '@B.barr[k]',
            '@B.barr[arr[0]]', 'arr[@B.bk]', '@B.barr[@B.bk]', '1', '2.5']
    bools = ['flag', 'inner.b', 'msgs[0].b', '@B.bflag', 'True']
    strs = ['s', 'inner.w', '@B.bs', '"txt"']

    def num(d):
        if d == 0 or rnd.random() < 0.3:
            return rnd.choice(nums)
        k = rnd.random()
        if k < 0.5:
            return f'({num(d - 1)} {rnd.choice("+-*/")} {num(d - 1)})'
        if k < 0.65:
            return f'abs({num(d - 1)})'
        if k < 0.8:
            return f'len({rnd.choice(["arr", "@B.barr", "{1, 2}", "[1 to k]"])})'
        return f'-{num(d - 1)}'

    def boolean(d):
        if d == 0 or rnd.random() < 0.25:
            k = rnd.random()
            if k < 0.5:
                return f'{num(0)} {rnd.choice(["<", "<=", ">", ">=", "=", "!="])} {num(0)}'
            if k < 0.65:
                return f'{rnd.choice(strs)} {rnd.choice(["=", "!="])} {rnd.choice(strs)}'
            return rnd.choice(bools)
        k = rnd.random()
        if k < 0.4:
            return f'({boolean(d - 1)} {rnd.choice(["and", "or", "implies", "iff"])} {boolean(d - 1)})'
        if k < 0.5:
            return f'not ({boolean(d - 1)})'
        if k < 0.65:
            return f'{num(d - 1)} in {rnd.choice(["{1, 2, k}", "[0 to k]", "arr"])}'
        if k < 0.8:
            return f'(forall i in arr: (@i > {num(0)} {rnd.choice(["and", "or"])} {boolean(d - 1)}))'
        return f'{num(d - 1)} {rnd.choice(["<", ">", "="])} {num(d - 1)}'
    cases = 0
    violations = []
    n = 2500 if tier == 'thorough' else 300
    for _ in range(n):
        phi = boolean(3)
        if '@B' in phi:
            # the alias is bound by the scope activator, or by the trigger of the pattern itself
            text = rnd.choice([f'after b as B: no a {{{phi}}}', f'globally: b as B causes a {{{phi}}}',
                               f'globally: b as B forbids a {{{phi}}} within 1 s', f'after b as B until a {{{phi}}}: some a',
                               f'globally: a {{{phi}}} requires b as B', f'after b as B: a causes a {{{phi}}}'])
        else:
            text = f'globally: no a {{{phi}}}'
        if 'k' not in phi and 'f' not in phi and 'flag' not in phi and 'inner' not in phi and 'arr' not in phi \
                and 'msgs' not in phi and ' s ' not in f' {phi} ' and 'C' not in phi:
            continue
        cases += 1
        try:
            prop = pp.parse(text)
        except TypeError as e:
            if len(violations) < 5:
                violations.append({'witness': text, 'what': f'well-typed predicate rejected: {text}: {str(e)[:120]}'})
            continue
        except Exception:
            continue
        try:
            prop.type_check_references(schema)
        except Exception as e:
            if len(violations) < 5:
                violations.append({'witness': text, 'what': f'schema check of a well-typed property fails: {text}: {type(e).__name__}: {str(e)[:120]}'})
    return {'obligations_n': 0, 'discharged_n': 0, 'violations': violations, 'faults': [],
            'bounded': {'what': 'type-directed generation from a schema: accepted by the parser and by the schema check',
                        'bound': f'{n} predicates to depth 3 over a schema with nested messages, arrays, constants, aliases and quantifiers',
                        'cases': cases, 'distinct': cases, 'exhaustive': False},
            'samples': [{'text': 'after b as B: no a {(k + @B.inner.z) > abs(arr[0])}', 'expected': 'accepted'}]}
