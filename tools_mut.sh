#!/bin/bash
# usage: tools_mut.sh <patch-file> <prop> [<prop>...]   -- applies a patch to /repo, runs the checks, reverts
P=$1; shift
git -C /repo apply "$P" || { echo "patch does not apply"; exit 2; }
for c in "$@"; do (cd /verif && ./check $c 2>&1 | grep -v "^WARNING" | cut -c1-400 | head -${LINES_MAX:-12}); done
git -C /repo checkout -- . 
git -C /repo status --short | head -3
