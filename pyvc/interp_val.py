"""Arithmetic and ordering on literal payloads (Val = bool | int | float | str). A-REAL: floats are reals."""
from __future__ import annotations

import ast

import z3

from .classtable import TBool, TInt, TReal, TStr, TVal
from .values import SV, Untranslatable


class ValMixin:
    def val_parts(self, x):
        """(is_num cond, real term, is_int cond) of a payload-ish value"""
        V = self.ct.Val
        if isinstance(x, SV) and isinstance(x.ty, TVal):
            t = x.term
            isnum = z3.Not(V.is_VStr(t))
            num = z3.If(V.is_VBool(t), z3.If(V.vbool(t), z3.RealVal(1), z3.RealVal(0)),
                        z3.If(V.is_VInt(t), z3.ToReal(V.vint(t)), V.vfloat(t)))
            isint = z3.Or(V.is_VBool(t), V.is_VInt(t))
            return isnum, num, isint
        if isinstance(x, SV) and isinstance(x.ty, (TInt, TReal, TBool)):
            return True, self.num_term(x), isinstance(x.ty, (TInt, TBool))
        if isinstance(x, (bool, int)):
            return True, self.num_term(x), True
        if isinstance(x, float):
            return True, self.num_term(x), False
        return False, z3.RealVal(0), False

    def val_num_result(self, real_term, isint):
        """payload for a numeric result: int when both operands were ints (python semantics)"""
        V = self.ct.Val
        if isinstance(isint, bool):
            if isint:
                return SV(V.VInt(z3.ToInt(real_term)), TVal())
            return SV(V.VFloat(real_term), TVal())
        return SV(z3.If(isint, V.VInt(z3.ToInt(real_term)), V.VFloat(real_term)), TVal())

    def val_arith(self, name, a, b, fr, node):
        na, ra, ia = self.val_parts(a)
        if b is None:
            if not self.ex.branch(self.bterm(na), 'payload-num'):
                self.raise_exc(TypeError, f'bad operand type for {name}', fr, node)
            if name == 'neg':
                return self.val_num_result(-ra, ia)
            if name == 'abs':
                return self.val_num_result(z3.If(ra >= 0, ra, -ra), ia)
            raise Untranslatable(name)
        nb, rb, ib = self.val_parts(b)
        both = self.conj([na, nb])
        if not self.ex.branch(self.bterm(both), 'payload-nums'):
            # str + str etc. are not modelled; numbers with strings raise TypeError
            sa = isinstance(a, SV) and isinstance(a.ty, (TVal, TStr)) or isinstance(a, str)
            sb = isinstance(b, SV) and isinstance(b.ty, (TVal, TStr)) or isinstance(b, str)
            if name in ('add', 'mul') and sa and sb:
                raise Untranslatable('string payload arithmetic')
            self.raise_exc(TypeError, f'unsupported operand types for {name}', fr, node)
        isint = self.conj([ia, ib])
        if name == 'add':
            return self.val_num_result(ra + rb, isint)
        if name == 'sub':
            return self.val_num_result(ra - rb, isint)
        if name == 'mul':
            return self.val_num_result(ra * rb, isint)
        if name == 'div':
            if self.ex.branch(rb == 0, 'payload-div0'):
                self.raise_exc(ZeroDivisionError, 'division by zero', fr, node)
            return self.val_num_result(ra / rb, False)
        if name == 'pow':
            f = z3.Function('py_pow', z3.RealSort(), z3.RealSort(), z3.RealSort())
            self.note_uninterpreted('py_pow')
            self.ex.st.inexact.append('** is uninterpreted')
            return self.val_num_result(f(ra, rb), False)
        raise Untranslatable(name)

    def val_order(self, op, a, b, fr, node):
        na, ra, _ = self.val_parts(a)
        nb, rb, _ = self.val_parts(b)
        both = self.conj([na, nb])
        if not self.ex.branch(self.bterm(both), 'payload-order-nums'):
            raise Untranslatable('ordering of string payloads')
        return {ast.Lt: ra < rb, ast.LtE: ra <= rb, ast.Gt: ra > rb, ast.GtE: ra >= rb}[type(op)]

    def val_convert(self, name, v, fr, node):
        raise Untranslatable(f'{name}() of a literal payload')
