"""Contracts at call sites, spec functions, comprehension lifting, heap effects, obligations."""
from __future__ import annotations

import ast
import inspect
from typing import Any, Dict, List, Optional

import z3
from z3 import z3util

from .classtable import (Ty, TBool, TInt, TReal, TStr, TDT, TVal, TNode, TSeq, TSet, TOpt, TEnum, TMap)
from .contracts import CONTRACTS, SPECS, Contract, SpecFn, parse_ty, resolve_qualname, unwrap_function
from .core import Obligation, Explorer
from . import recfuns
from .values import (SV, Rec, Box, Exc, BoundMethod, VirtualMethod, Closure, FunSym, Opaque, PyRaise,
                     ReturnSig, PathCut, Untranslatable, Infeasible, NeedFork, is_concrete)
from .interp_expr import Frame

_AUX_COMP: Dict[Any, Any] = {}


def _is_fun_symbol(d):
    return d.kind() in (z3.Z3_OP_UNINTERPRETED, z3.Z3_OP_RECURSIVE) and d.arity() > 0


def _function_symbols(terms):
    """names of the uninterpreted / recursive function symbols applied in terms (under binders too)"""
    out = set()
    seen = set()
    stack = list(terms)
    while stack:
        t = stack.pop()
        if t.get_id() in seen:
            continue
        seen.add(t.get_id())
        if z3.is_quantifier(t):
            stack.append(t.body())
            continue
        if z3.is_app(t):
            if _is_fun_symbol(t.decl()):
                out.add(t.decl().name())
            stack.extend(t.children())
    return out


_BODY_SYMS: Dict[Any, Any] = {}


def _closure_under_definitions(names):
    """the symbols in `names` plus those their definitions mention, transitively (unfolding may introduce them)"""
    by_name = {f.name(): (f, body) for f, params, body, twin in recfuns.REC.values()}
    out = set(names)
    work = list(names)
    while work:
        n = work.pop()
        fb = by_name.get(n)
        if fb is None or fb[1] is None:
            continue
        key = (n, fb[1].get_id())
        if key not in _BODY_SYMS:
            _BODY_SYMS[key] = _function_symbols([fb[1]])
        for m in _BODY_SYMS[key]:
            if m not in out:
                out.add(m)
                work.append(m)
    return out


def _trigger_symbols(q):
    """function symbols that must occur for an explicit trigger of q to match (empty: no explicit trigger)"""
    if not z3.is_quantifier(q) or q.num_patterns() == 0:
        return set()
    best = None
    for i in range(q.num_patterns()):
        syms = _function_symbols(list(q.pattern(i).children()))
        if best is None or len(syms) < len(best):
            best = syms
    return best or set()


def captures(terms, x):
    """the parameters of a lifted comprehension: the maximal subterms of the body that do not contain the
    bound element x (and are not literals), in order of first occurrence - so that two comprehensions of the
    same shape denote the same function whatever expressions they close over"""
    has_x = {}

    def contains(t):
        i = t.get_id()
        if i not in has_x:
            if z3.is_quantifier(t):
                has_x[i] = any(v.eq(x) for v in z3util.get_vars(t))
            else:
                has_x[i] = t.eq(x) or any(contains(c) for c in t.children())
        return has_x[i]

    caps, seen = [], set()

    def is_literal(t):
        if z3.is_quantifier(t) or not z3.is_app(t):
            return False
        if t.num_args() == 0:
            if z3.is_bv_value(t):
                # type-set constants (BOOL, NUMBER, NONE, ...) are parameters like any captured value: a fold over
                # `uses at type t` is one function whether t is a literal at this site or a symbol
                return False
            return t.decl().kind() != z3.Z3_OP_UNINTERPRETED
        # constructor applications / interpreted operators over literals only (e.g. an operator definition record)
        return t.decl().kind() != z3.Z3_OP_UNINTERPRETED and t.decl().kind() != z3.Z3_OP_RECURSIVE \
            and all(is_literal(c) for c in t.children())

    def walk(t):
        if not contains(t):
            if is_literal(t):
                return
            if t.get_id() not in seen:
                seen.add(t.get_id())
                caps.append(t)
            return
        if z3.is_quantifier(t):
            # x under a binder: fall back to the free constants of the quantified formula
            for v in z3util.get_vars(t):
                if not v.eq(x) and v.get_id() not in seen:
                    seen.add(v.get_id())
                    caps.append(v)
            return
        for c in t.children():
            walk(c)
    for t in terms:
        walk(t)
    return caps


class ContractMixin:
    # ------------------------------------------------------------------ obligations
    def obligation(self, name, kind, tag, goal, node=None, exact=None):
        goal = self.bterm(goal) if isinstance(goal, bool) else goal
        goal = self.skolemize(goal)
        if z3.is_and(goal) and goal.num_args() > 1 and kind in ('inv', 'post', 'lemma', 'pre'):
            # one obligation per conjunct: smaller queries, more precise reports
            obs = [self.obligation(f'{name}#{i}', kind, tag, c, node, exact) for i, c in enumerate(goal.children())]
            return obs[0]
        st = self.ex.st
        defs = self.auto_unfold(goal)
        hyps = list(self.ex.base_hyps) + list(st.pc)
        defs = defs + self.auto_lemmas(hyps + [goal]) + self.quantified_defs(hyps + [goal])
        ob = Obligation(name, kind, tag, hyps + defs, goal, tuple(st.sig),
                        exact=(not st.inexact) if exact is None else exact,
                        where=f'line {getattr(node, "lineno", "?")}')
        self.obligations.append(ob)
        return ob

    def auto_lemmas(self, terms=()):
        """proved lemmas flagged `auto` for a spec this task uses, as universally quantified hypotheses;
        while proving a lemma only earlier lemmas (no circular reasoning).  A lemma whose trigger mentions a
        function symbol (spec, fold, predicate) that does not occur in the obligation cannot fire and is left out."""
        from .contracts import LEMMAS
        from .lemmas import lemma_as_hypothesis
        cur = getattr(self, 'current_lemma', None)
        cands = []
        for lm in LEMMAS.values():
            if not lm.auto or not (set(lm.auto) & self.specs_used):
                continue
            if cur is not None and lm.index >= cur.index:
                continue
            key = lm.name
            if key not in self._auto_cache:
                h = lemma_as_hypothesis(self, lm)
                self._auto_cache[key] = (h, _trigger_symbols(h), _function_symbols([h]))
            cands.append((lm,) + self._auto_cache[key])
        if not terms:
            for lm, h, syms, body_syms in cands:
                self.lemmas_used.add(lm.name)
            return [h for lm, h, syms, body_syms in cands]
        # fixpoint: a lemma is relevant when the symbols of one of its triggers occur in the obligation, in the
        # definitions reachable from it, or in a lemma already found relevant (whose instances may introduce them)
        present = _closure_under_definitions(_function_symbols(terms))
        chosen = {}
        changed = True
        while changed:
            changed = False
            for lm, h, syms, body_syms in cands:
                if lm.name in chosen:
                    continue
                if not syms or syms <= present:
                    chosen[lm.name] = h
                    new_syms = _closure_under_definitions(body_syms) - present
                    if new_syms:
                        present |= new_syms
                    changed = True
        out = []
        for lm, h, syms, body_syms in cands:
            if lm.name in chosen:
                self.lemmas_used.add(lm.name)
                out.append(h)
        return out

    def quantified_defs(self, terms):
        """definitions of the quantified predicates (equiv) applied in terms:  equiv(a, b) == ForAll rho ..."""
        out = []
        if not self.qpreds:
            return out
        from .models_specs import equiv_elimination
        rule = equiv_elimination(self, terms)
        if rule is not None:
            out.append(rule)
        seen = set()
        done = set()
        stack = list(terms)
        while stack:
            t = stack.pop()
            if t.get_id() in seen:
                continue
            seen.add(t.get_id())
            if z3.is_quantifier(t):
                continue        # an application under a binder has no ground definition instance
            if z3.is_app(t):
                b = self.qpreds.get(t.decl().get_id())
                if b is not None and t.get_id() not in done:
                    done.add(t.get_id())
                    out.append(t == b(*t.children()))
                stack.extend(t.children())
        return out

    def skolemize(self, goal):
        """a universally quantified goal is proved for fresh constants (so that definitional instances of
        the spec functions applied to them can be generated); only positive top-level positions"""
        if z3.is_app(goal) and self.qpreds.get(goal.decl().get_id()) is not None:
            return self.skolemize(self.qpreds[goal.decl().get_id()](*goal.children()))
        if z3.is_quantifier(goal) and goal.is_forall():
            cs = [z3.Const(self.ex.fresh_name(goal.var_name(i) + '!sk'), goal.var_sort(i))
                  for i in range(goal.num_vars())]
            return self.skolemize(z3.substitute_vars(goal.body(), *reversed(cs)))
        if z3.is_implies(goal):
            return z3.Implies(goal.arg(0), self.skolemize(goal.arg(1)))
        if z3.is_and(goal):
            return z3.And(*[self.skolemize(c) for c in goal.children()])
        return goal

    def auto_unfold(self, goal, limit=6):
        """definitional instances  f(args) == body[args]  for the spec-function applications that occur
        in a goal (one level): valid by definition, and they save the solver the first unfolding"""
        out = []
        try:
            by_decl = {}
            for sp in SPECS.values():
                if sp.z3fun is not None and sp.defined and sp.name in self.spec_defs:
                    by_decl[sp.z3fun.get_id()] = sp
            if not by_decl:
                return out
            seen = set()
            stack = [goal]
            while stack and len(out) < limit:
                t = stack.pop()
                if not z3.is_app(t) or t.get_id() in seen:
                    continue
                seen.add(t.get_id())
                sp = by_decl.get(t.decl().get_id())
                if sp is not None:
                    params, tys, rty = self.spec_sig(sp)
                    consts = [z3.Const(p, ty.z3sort()) for p, ty in zip(params, tys)]
                    inst = z3.substitute(self.spec_defs[sp.name], *zip(consts, t.children()))
                    out.append(t == inst)
                stack.extend(t.children())
        except Exception:
            return out
        return out

    # ------------------------------------------------------------------ clause evaluation
    def eval_clause(self, fnode, globs, env):
        fr = Frame(dict(env), globs, f'<clause {fnode.name}>')
        fr.assigned_names = set()
        self.depth += 1
        self.in_clause += 1
        try:
            try:
                self.exec_block(fnode.body, fr)
                return None
            except ReturnSig as r:
                return r.value
            except PyRaise as e:
                raise Untranslatable(f'contract clause {fnode.name} raised {e.exc.cls.__name__}: {e.exc.args}')
        finally:
            self.depth -= 1
            self.in_clause -= 1

    def eval_hint(self, fnode, globs, env):
        """evaluate a hint (a function that calls instances of proved lemmas).  A hint parameter named `rho` that
        the caller cannot supply stands for an arbitrary valuation: the hint is evaluated on a fresh constant and
        the facts it yields (lemma instances, valid for every valuation) are assumed universally closed over it."""
        params = [a.arg for a in fnode.args.args]
        if 'rho' in params and 'rho' not in env:
            from .classtable import TAbs
            ty = TAbs('Env')
            rho = z3.Const(self.ex.fresh_name('rho!h'), ty.z3sort())
            env = dict(env)
            env['rho'] = SV(rho, ty)
            ex = self.ex
            npc = len(ex.st.pc)
            ex.nofork += 1
            try:
                self.eval_clause(fnode, globs, {p_: env[p_] for p_ in params})
                facts = list(ex.st.pc[npc:])
            except NeedFork:
                raise Untranslatable(f'hint {fnode.name} over a valuation forks')
            finally:
                ex.nofork -= 1
                del ex.st.pc[npc:]
            for f in facts:
                if any(v.eq(rho) for v in z3util.get_vars(f)):
                    ex.assume(z3.ForAll([rho], f))
                else:
                    ex.assume(f)
            return
        self.eval_clause(fnode, globs, {p_: env[p_] for p_ in params})

    def clause_env(self, clause, env):
        params = [a.arg for a in clause.node.args.args]
        out = {}
        for p in params:
            if p not in env:
                raise Untranslatable(f'clause {clause.name} of contract refers to unknown parameter {p}')
            out[p] = self.freeze(env[p])
        return out

    def contract_target(self, con: Contract):
        """(function object, FunctionDef, is_constructor)"""
        if con.qualname in self._con_targets:
            return self._con_targets[con.qualname]
        mod, owner, name, obj = resolve_qualname(con.qualname)
        is_ctor = name == '__init__'
        func = unwrap_function(obj)
        from .interp_call import fundef_of
        r = (func, fundef_of(func), is_ctor, owner, obj)
        self._con_targets[con.qualname] = r
        return r

    def call_contract(self, con: Contract, args, kwargs, fr, node):
        func, fnode, is_ctor, owner, raw = self.contract_target(con)
        if is_ctor:
            args = [None] + list(args)
        if isinstance(raw, classmethod) and (not args or not inspect.isclass(args[0])):
            args = [owner] + list(args)
        env = self.bind_args(fnode, func, args, kwargs, fr, node)
        if is_ctor:
            env.pop(fnode.args.args[0].arg, None)
            # attrs converters run before the validators the contract describes: a concrete argument of a
            # convertible kind (an Enum member, a token string) is converted natively, as __init__ would
            import attrs as _attrs
            import enum as _enum
            try:
                flds = {a.name: a for a in _attrs.fields(owner)}
            except Exception:
                flds = {}
            for k, v in list(env.items()):
                a = flds.get(k)
                if a is not None and a.converter is not None and isinstance(v, (_enum.Enum, str)):
                    try:
                        env[k] = a.converter(v)
                    except Exception as e:
                        raise Untranslatable(f'converter of {owner.__name__}.{k} failed natively: {e}')
        for k, v in list(env.items()):
            if isinstance(v, Box) and v.kind == 'dict':
                continue
            env[k] = self.freeze(v)
        self.contracts_used.add(con.qualname)
        # preconditions are obligations of the caller
        for c in con.requires:
            r = self.eval_clause(c.node, c.globs, self.clause_env(c, env))
            self.obligation(f'{con.qualname}/{c.name}@{fr.qualname}', 'pre', 'aux',
                            self.bterm(self.truth_term(r)), node)
            self.ex.assume(self.bterm(self.truth_term(r)))
        # exceptional outcomes
        for ename, c in con.raises.items():
            mode = con.raise_mode.get(ename, 'iff')
            cond = self.bterm(self.truth_term(self.eval_clause(c.node, c.globs, self.clause_env(c, env))))
            ecls = self.exc_class(ename, c.globs)
            if mode == 'iff':
                if self.ex.branch(cond, f'{con.qualname.split(".")[-1]}:raises {ename}'):
                    raise PyRaise(Exc(ecls, (Opaque('contract'),)))
            elif mode == 'only_if':
                if self.ex.branch(cond, f'{con.qualname.split(".")[-1]}:may raise {ename}'):
                    w = self.ex.choose([z3.BoolVal(True), z3.BoolVal(True)], [f'raise {ename}', 'no raise'])
                    if w == 0:
                        raise PyRaise(Exc(ecls, (Opaque('contract'),)))
            elif mode == 'if':
                if self.ex.branch(cond, f'{con.qualname.split(".")[-1]}:raises {ename}'):
                    raise PyRaise(Exc(ecls, (Opaque('contract'),)))
                w = self.ex.choose([z3.BoolVal(True), z3.BoolVal(True)], [f'raise {ename}?', 'no raise'])
                if w == 0:
                    self.ex.st.inexact.append(f'{con.qualname} may raise {ename} for unstated reasons')
                    raise PyRaise(Exc(ecls, (Opaque('contract'),)))
        # declared effects: in-place narrowing of an argument (the caller's object): replayed on the caller's state,
        # which yields the caller's frame obligation when that object is not fresh
        for pname, c in con.narrows.items():
            tgt = env.get(pname)
            newdt = self.eval_clause(c.node, c.globs, self.clause_env(c, env))
            if isinstance(tgt, SV) and isinstance(tgt.ty, TNode):
                self.effect_write(tgt, 'data_type', newdt, fr, node)
        # normal outcome
        result = None
        for c in con.result_is:
            pname = c.name[len('result_is_'):]
            cond = self.bterm(self.truth_term(self.eval_clause(c.node, c.globs, self.clause_env(c, env))))
            if self.ex.branch(cond, f'result is {pname}'):
                result = env[pname]
                break
        if result is None:
            if con.returns is not None:
                result = self.eval_clause(con.returns.node, con.returns.globs, self.clause_env(con.returns, env))
                if isinstance(result, SV) and isinstance(result.ty, TNode):
                    result = SV(result.term, result.ty, oid=self.new_oid('res'), fresh=con.result_fresh)
            elif con.result is not None and con.result.startswith('Tuple['):
                # a fixed-size tuple of values: a Python tuple of fresh symbols
                parts = [x.strip() for x in con.result[len('Tuple['):-1].split(',')]
                items = []
                for i_, pt in enumerate(parts):
                    ity = parse_ty(pt, self.ct)
                    sv = self.fresh(f'res{i_}_' + con.qualname.split('.')[-1], ity)
                    if isinstance(ity, TNode):
                        sv.oid = self.new_oid('res')
                        sv.fresh = con.result_fresh
                    items.append(sv)
                result = tuple(items)
            elif con.result is not None:
                rty = parse_ty(con.result, self.ct)
                result = self.fresh('res_' + con.qualname.split('.')[-1], rty)
                if isinstance(rty, TNode):
                    result.oid = self.new_oid('res')
                    result.fresh = con.result_fresh
        env2 = dict(env)
        env2['result'] = result
        for c in con.ensures:
            r = self.eval_clause(c.node, c.globs, self.clause_env(c, env2))
            self.ex.assume(self.bterm(self.truth_term(r)))
        # sets handed to code are fresh mutable objects
        if isinstance(result, SV) and isinstance(result.ty, TSet) and not self.in_clause:
            return Box('set', term=result.term, elem=result.ty.elem)
        if isinstance(result, SV) and isinstance(result.ty, TSeq) and con.result and con.result.startswith('List'):
            return Box('list', term=result.term, elem=result.ty.elem)
        return result

    def exc_class(self, name, globs):
        import builtins
        if name in globs:
            return globs[name]
        if hasattr(builtins, name):
            return getattr(builtins, name)
        for mod in self.ct.modules.values():
            if hasattr(mod, name):
                return getattr(mod, name)
        raise Untranslatable(f'unknown exception class {name}')

    # ------------------------------------------------------------------ spec functions
    def spec_sig(self, sp: SpecFn):
        params = [a.arg for a in sp.node.args.args]
        tys = [parse_ty(sp.ann[p], self.ct) for p in params]
        rty = parse_ty(sp.ann['return'], self.ct)
        return params, tys, rty

    def declare_spec(self, sp: SpecFn):
        if sp.z3fun is None:
            params, tys, rty = self.spec_sig(sp)
            if sp.opaque:
                # no definition at all: an uninterpreted symbol (never a RecFunction without a body)
                sp.z3fun = z3.Function(sp.name, *[t.z3sort() for t in tys], rty.z3sort())
                self.uninterpreted.add(f'spec {sp.name} (opaque)')
            else:
                sp.z3fun = z3.RecFunction(sp.name, *[t.z3sort() for t in tys], rty.z3sort())
                recfuns.declare(sp.z3fun)
        return sp.z3fun

    def define_spec(self, sp: SpecFn):
        if sp.defined:
            return
        sp.defined = True
        params, tys, rty = self.spec_sig(sp)
        f = self.declare_spec(sp)
        sub = self.sub_interp([])
        consts = [z3.Const(p, t.z3sort()) for p, t in zip(params, tys)]

        def body(ex):
            env = {p: SV(c, t, oid=('param', p)) for p, c, t in zip(params, consts, tys)}
            return sub.eval_clause(sp.node, sp.globs, env)
        try:
            results = sub.ex.explore(body)
        except Exception:
            sp.defined = False
            raise
        arms = []
        for kind, payload, st in results:
            if kind != 'ret':
                raise Untranslatable(f'spec function {sp.name} has a non-returning path ({kind})')
            cond = z3.And(*st.pc) if st.pc else z3.BoolVal(True)
            arms.append((cond, sub.term(payload, rty)))
        if not arms:
            raise Untranslatable(f'spec function {sp.name} has no path')
        # the explored paths must cover every input (a silently dropped path would make the default arm wrong)
        cover = z3.Solver()
        cover.set('timeout', 5000)
        cover.add(recfuns.abstract(z3.Not(z3.Or(*[c for c, _ in arms]))))
        if cover.check() != z3.unsat:
            raise Untranslatable(f'spec function {sp.name}: explored paths are not exhaustive '
                                 f'({cover.check()}): translation refused')
        t = arms[-1][1]
        for cond, val in reversed(arms[:-1]):
            t = z3.If(cond, val, t)
        recfuns.define(f, consts, t)
        self.spec_defs[sp.name] = t
        if sub.obligations:
            # pruned branches of a spec translation are covered by the exhaustiveness check above
            bad = [o for o in sub.obligations if o.kind not in ('pre', 'pruned')]
            if bad:
                raise Untranslatable(f'spec function {sp.name} is not total: {bad[0].name}')

    def call_spec(self, sp: SpecFn, args, kwargs, fr, node):
        params, tys, rty = self.spec_sig(sp)
        if kwargs:
            raise Untranslatable('keyword arguments to a spec function')
        if sp.inline:
            self.specs_used.add(sp.name)
            env = {}
            for p_, a, t in zip(params, args, tys):
                env[p_] = a if isinstance(a, SV) and a.ty == t else SV(self.term(a, t), t)
            return self.eval_clause(sp.node, sp.globs, env)
        f = self.declare_spec(sp)
        if not sp.defined and not sp.opaque:
            self.define_spec(sp)
        self.specs_used.add(sp.name)
        ts = [self.term(a, t) for a, t in zip(args, tys)]
        return SV(f(*ts), rty)

    def sub_interp(self, hyps):
        sub = type(self)(Explorer(hyps))
        sub.fuv = None
        sub.current_contract = None
        sub.in_clause = 1
        sub.spec_defs = self.spec_defs
        sub.aux_funs = self.aux_funs
        sub.specs_used = self.specs_used
        sub.lemmas_used = self.lemmas_used
        sub.current_lemma = self.current_lemma
        sub.contracts_used = self.contracts_used
        sub.uninterpreted = self.uninterpreted
        return sub

    # ------------------------------------------------------------------ comprehension lifting
    def lift_comprehension(self, node, g, fr, seq: SV, kind):
        ety = seq.ty.elem
        x = z3.Const('comp!elem', ety.z3sort())
        xv = SV(x, ety, oid=('elem', 'comp'))
        nfr = Frame(dict(fr.env), fr.globs, fr.qualname, fr.closure)
        nfr.assigned_names = getattr(fr, 'assigned_names', set())
        ex = self.ex
        pass
        npc = len(ex.st.pc)
        nobl = len(self.obligations)
        ex.nofork += 1
        facts = dict(ex.st.cls_facts)
        try:
            self.assign(g.target, xv, nfr)
            conds = []
            for c in g.ifs:
                conds.append(self.bterm(self.truth_term(self.eval(c, nfr))))
            bv = self.eval(node.elt, nfr)
            extra = list(ex.st.pc[npc:])
        except NeedFork:
            raise Untranslatable(f'comprehension body forks at {fr.qualname}:{node.lineno}')
        except PyRaise as e:
            raise Untranslatable(f'comprehension body may raise {e.exc.cls.__name__} at {fr.qualname}:{node.lineno}')
        finally:
            ex.nofork -= 1
            del ex.st.pc[npc:]
            ex.st.cls_facts = facts
        new_obls = self.obligations[nobl:]
        if new_obls:
            raise Untranslatable(f'comprehension body with proof obligations at {fr.qualname}:{node.lineno}')
        rty = self.ty_of(bv)
        if rty is None:
            raise Untranslatable('comprehension element of unknown type')
        if isinstance(bv, Box):
            raise Untranslatable('comprehension element is a mutable container')
        body = self.term(bv, rty)
        filt = z3.And(*conds) if conds else None
        f, caps = self.comp_function(body, filt, x, ety, rty)
        res = f(seq.term, *caps)
        comp_meta = (body, filt, x, ety, rty, seq.term)
        if extra:
            j = z3.Int(ex.fresh_name('j'))
            fact = z3.substitute(z3.And(*extra), (x, seq.term[j]))
            ex.assume(z3.ForAll([j], z3.Implies(z3.And(j >= 0, j < z3.Length(seq.term)), fact)))
        out = SV(res, TSeq(rty))
        out.meta = ('comp',) + comp_meta
        if kind == 'list':
            return Box('list', term=out.term, elem=rty)
        return out

    def comp_function(self, body, filt, x, ety, rty):
        """hash-consed first-order map/filter function for a comprehension body"""
        caps = captures([body] + ([filt] if filt is not None else []), x)
        # canonical placeholders
        ph = [z3.Const(f'cap!{i}!{c.sort()}', c.sort()) for i, c in enumerate(caps)]
        px = z3.Const(f'elem!{ety.z3sort()}', ety.z3sort())
        sub = [(c, p) for c, p in zip(caps, ph)] + [(x, px)]
        nbody = z3.substitute(body, *sub)
        nfilt = z3.substitute(filt, *sub) if filt is not None else None
        key = (nbody.sexpr(), nfilt.sexpr() if nfilt is not None else None, str(ety.z3sort()))
        if key not in _AUX_COMP:
            name = f'comp{len(_AUX_COMP)}'
            ssort = z3.SeqSort(ety.z3sort())
            rsort = z3.SeqSort(rty.z3sort())
            f = z3.RecFunction(name, ssort, *[p.sort() for p in ph], rsort)
            s = z3.Const('s', ssort)
            n = z3.Length(s)
            head_body = z3.substitute(nbody, (px, s[0]))
            rest = f(z3.SubSeq(s, 1, n - 1), *ph)
            step = z3.Concat(z3.Unit(head_body), rest)
            if nfilt is not None:
                step = z3.If(z3.substitute(nfilt, (px, s[0])), step, rest)
            recfuns.define(f, [s] + ph, z3.If(n == 0, z3.Empty(rsort), step))
            _AUX_COMP[key] = f
        return _AUX_COMP[key], caps

    def declared_narrow_target(self, target):
        """(param name, clause, declared new type) when target is a parameter of the function under verification
        whose contract declares its in-place narrowing"""
        d = getattr(self, 'fuv_narrows', None)
        if not d:
            return None
        for pname, (sv, clause, val) in d.items():
            if sv is target:
                return pname, clause, val
        return None

    def fused_fold(self, is_any, meta):
        """any(...)/all(...) over a comprehension as ONE recursive function (map and fold fused):
        any_k(s, caps) = len(s) > 0 and (body(s[0]) or any_k(s[1:], caps))"""
        _, body, filt, x, ety, rty, seqterm = meta
        if not is_any:
            # canonical form: all(P) is not any(not P), so that both folds over the same body are one function
            b0 = recfuns.bool_simplify(body, sort_args=False)
            nb = b0.arg(0) if z3.is_not(b0) else z3.Not(b0)
            return z3.Not(self.fused_fold(True, ('comp', nb, filt, x, ety, rty, seqterm)))
        # canonical body: (1) the captured subterms are replaced by placeholders in order of first occurrence,
        # (2) and/or arguments are sorted on the placeholder form (so that the order does not depend on the names of
        # what is captured), (3) the placeholders are renumbered by first occurrence in the sorted body
        body = recfuns.bool_simplify(body, sort_args=False)
        caps0 = captures([body] + ([filt] if filt is not None else []), x)
        tmp = [z3.Const(f'tmp!cap!{i}!{c.sort()}', c.sort()) for i, c in enumerate(caps0)]
        px = z3.Const(f'elem!{ety.z3sort()}', ety.z3sort())
        sub0 = [(c, p) for c, p in zip(caps0, tmp)] + [(x, px)]
        b1 = recfuns.bool_simplify(z3.substitute(body, *sub0))
        f1 = z3.substitute(filt, *sub0) if filt is not None else None
        order = []
        for t_ in captures([b1] + ([f1] if f1 is not None else []), px):
            for i, p_ in enumerate(tmp):
                if p_.eq(t_) and i not in order:
                    order.append(i)
        order += [i for i in range(len(tmp)) if i not in order]
        caps = [caps0[i] for i in order]
        ph = [z3.Const(f'cap!{k}!{caps0[i].sort()}', caps0[i].sort()) for k, i in enumerate(order)]
        sub1 = [(tmp[i], ph[k]) for k, i in enumerate(order)]
        nbody = z3.substitute(b1, *sub1)
        nfilt = z3.substitute(f1, *sub1) if f1 is not None else None
        key = ('fold', is_any, nbody.sexpr(), nfilt.sexpr() if nfilt is not None else None, str(ety.z3sort()))
        if key not in _AUX_COMP:
            name = f'{"any" if is_any else "all"}{len(_AUX_COMP)}'
            ssort = z3.SeqSort(ety.z3sort())
            f = z3.RecFunction(name, ssort, *[p.sort() for p in ph], z3.BoolSort())
            s = z3.Const('s', ssort)
            n = z3.Length(s)
            hb = z3.substitute(nbody, (px, s[0]))
            rest = f(z3.SubSeq(s, 1, n - 1), *ph)
            if nfilt is not None:
                hf = z3.substitute(nfilt, (px, s[0]))
                hb = z3.And(hf, hb) if is_any else z3.Implies(hf, hb)
            step = z3.Or(hb, rest) if is_any else z3.And(hb, rest)
            recfuns.define(f, [s] + ph, z3.If(n == 0, z3.BoolVal(not is_any), step))
            _AUX_COMP[key] = f
        return _AUX_COMP[key](seqterm, *caps)

    # ------------------------------------------------------------------ heap effects (W2)
    def effect_write(self, target: SV, name, value, fr, node):
        sort = target.ty.sort
        common = [f for f in self.ct.sort_common[sort] if f.name == name]
        if not common:
            raise Untranslatable(f'write to field {name} of an existing object')
        f = common[0]
        old = self.ct.common_field(sort, name, target.term)
        new = self.term(value, f.ty)
        noop = old == new
        self.writes.append(('W2', sort, name))
        self.ex.st.effects.append((target, old, new, target.fresh))
        declared = self.declared_narrow_target(target)
        if declared is not None:
            # the function under verification declares this narrowing in its contract: checked against it
            self.obligation(f'{self.fuv_name}/narrows_{declared[0]}', 'post', declared[1].tag,
                            new == self.term(declared[2], f.ty), node)
        elif not target.fresh:
            self.obligation(f'{self.fuv_name}/frame:{name}@{fr.qualname}', 'frame', 'C16', noop, node)
        if self.ex.entails(noop):
            return None
        if not target.fresh:
            self.ex.st.inexact.append('in-place narrowing of a pre-existing object not proved a no-op')
        # reference semantics: every alias of this python-level value sees the new field
        target.term = self.ct.with_common(sort, target.term, name, new)
        return None
