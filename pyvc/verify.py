"""Verification of one function against its contract: paths -> obligations -> solver."""
from __future__ import annotations

import ast
import hashlib
import inspect
import time
import traceback
import typing
from typing import Any, Dict, List, Optional

import z3

from . import classtable
from .classtable import (Ty, TBool, TInt, TReal, TStr, TDT, TVal, TNode, TSeq, TSet, TOpt, TEnum, TMap)
from .contracts import CONTRACTS, SPECS, INVARIANTS, LEMMAS, Contract, parse_ty, resolve_qualname, unwrap_function
from .core import Explorer, Obligation
from .interp import Interp
from .interp_call import fundef_of, assigned_names, is_generator
from .interp_expr import Frame
from .values import (SV, Rec, Box, Exc, PyRaise, ReturnSig, Untranslatable, PathCut, Opaque, FunSym)

QUICK_TIMEOUT_MS = 10000
THOROUGH_TIMEOUT_MS = 60000


class TaskResult:
    def __init__(self, name):
        self.name = name
        self.status = 'ok'          # ok | untranslatable | error
        self.message = ''
        self.obligations: List[Obligation] = []
        self.paths = 0
        self.source_sha = ''
        self.time = 0.0
        self.solver_time = 0.0
        self.contracts_used: List[str] = []
        self.specs_used: List[str] = []
        self.lemmas_used: List[str] = []
        self.uninterpreted: List[str] = []
        self.writes: List[tuple] = []
        self.pre_sat = None
        self.inputs: Dict[str, Any] = {}
        self.input_tys: Dict[str, Ty] = {}

    def summary(self):
        d = [o for o in self.obligations if o.status == 'discharged']
        r = [o for o in self.obligations if o.status == 'refuted']
        u = [o for o in self.obligations if o.status == 'unknown']
        return f'{self.name}: {self.status} paths={self.paths} obligations={len(self.obligations)} ' \
               f'discharged={len(d)} refuted={len(r)} unknown={len(u)} {self.message}'


def param_types(con: Contract, func, fnode, owner, ct):
    """types of the symbolic inputs: contract.params overrides, else the annotations of the real function"""
    out = {}
    try:
        hints = typing.get_type_hints(func)
    except Exception:
        hints = {}
    a = fnode.args
    names = [p.arg for p in a.posonlyargs + a.args + a.kwonlyargs]
    for i, p in enumerate(names):
        if p in con.params:
            spec = con.params[p]
            out[p] = spec if isinstance(spec, (Ty, tuple)) or callable(spec) else parse_ty(spec, ct)
            continue
        if i == 0 and owner is not None and p in ('self',):
            if owner is ct.DataType:
                out[p] = TDT()
                continue
            sort = ct.sort_of_class(owner)
            if sort is None:
                raise Untranslatable(f'no sort for receiver class {owner.__name__}')
            out[p] = TNode(sort)
            continue
        if i == 0 and p == 'cls':
            out[p] = ('concrete', owner)
            continue
        if p in hints:
            out[p] = ct.ty_of_annotation(hints[p], f'{func.__qualname__}.{p}')
            continue
        raise Untranslatable(f'no type for parameter {p} of {func.__qualname__}')
    return names, out


def verify_function(qualname: str, self_class: Optional[str] = None, timeout_ms=QUICK_TIMEOUT_MS,
                    safety_tag='aux', shape: Optional[str] = None) -> TaskResult:
    ct = classtable.get_table()
    con = CONTRACTS[qualname]
    name = qualname + (f'[{self_class}]' if self_class else '') + (f'<{shape.split(":", 1)[1]}>' if shape else '')
    res = TaskResult(name)
    t0 = time.time()
    try:
        mod, owner, attr, raw = resolve_qualname(qualname)
        func = unwrap_function(raw)
        if self_class is not None:
            # the override (or inherited body) that class self_class actually runs
            ci = ct.by_name[self_class]
            raw = inspect.getattr_static(ci.cls, attr)
            func = unwrap_function(raw)
            owner = ci.cls
        fnode = fundef_of(func)
        try:
            src = inspect.getsource(func)
        except Exception:
            src = ast.unparse(fnode)
        res.source_sha = hashlib.sha256(src.encode()).hexdigest()[:16]
        names, ptys = param_types(con, func, fnode, owner, ct)
        try:
            base_raw = resolve_qualname(qualname)[3]
            bnode = fundef_of(unwrap_function(base_raw))
            canon_names = [p.arg for p in bnode.args.posonlyargs + bnode.args.args + bnode.args.kwonlyargs]
        except Exception:
            canon_names = list(names)
        ex = Explorer()
        it = Interp(ex)
        it.fuv = func
        it.fuv_name = name
        it.current_contract = con
        it.safety_tag = safety_tag
        is_ctor = attr == '__init__'
        consts = {}
        for p in names:
            ty = ptys[p]
            if isinstance(ty, Ty):
                consts[p] = z3.Const(p, ty.z3sort())
        res.inputs = consts
        res.input_tys = {p: t for p, t in ptys.items() if isinstance(t, Ty)}

        def body(ex):
            env = {}
            for p in names:
                ty = ptys[p]
                if isinstance(ty, tuple) and ty[0] == 'concrete':
                    env[p] = ty[1]
                elif isinstance(ty, tuple) and ty[0] == 'fun':
                    arg_tys = [parse_ty(s, ct) for s in ty[1]]
                    rty = parse_ty(ty[2], ct)
                    decl = z3.Function(f'{p}!fn', *[t.z3sort() for t in arg_tys], rty.z3sort())
                    env[p] = FunSym(p, decl, arg_tys, rty)
                else:
                    env[p] = SV(consts[p], ty, oid=('param', p))
            if shape:
                # inputs of a fixed outer shape with symbolic leaves (bounded in shape, unbounded in the leaves)
                import importlib as _il
                modname, rest = shape.split(':', 1)
                fname, _, arg = rest.partition('|')
                builder = getattr(_il.import_module(modname), fname)
                over, facts = builder(it, ct, arg)
                for k_, v_ in over.items():
                    env[k_] = v_
                    if isinstance(v_, SV):
                        res.inputs[k_] = v_.term      # counter-models are concretised through the shape term
                        res.input_tys[k_] = v_.ty
                    elif isinstance(v_, Box) and v_.items is not None:
                        res.inputs[k_] = ('list', [x.term if isinstance(x, SV) else x for x in v_.items])
                        res.input_tys[k_] = ('list', [x.ty if isinstance(x, SV) else None for x in v_.items])
                for f_ in facts:
                    ex.assume(f_)
            if is_ctor:
                ci = ct.classes[owner]
                rec = Rec(ci, it.new_oid(ci.name))
                env[names[0]] = rec
            if self_class is None and not is_ctor and names and isinstance(env.get(names[0]), SV) \
                    and isinstance(env[names[0]].ty, TNode) and owner is not None and names[0] == 'self':
                # the receiver is an instance of the class that declares the method (or a subclass)
                cis = [ci for ci in ct.sort_classes[env[names[0]].ty.sort] if issubclass(ci.cls, owner)]
                if cis and len(cis) < len(ct.sort_classes[env[names[0]].ty.sort]):
                    ex.assume(it.bterm(it.class_cond(env[names[0]], cis)))
                    it.restrict_class(env[names[0]], cis)
            if self_class is not None and isinstance(env.get(names[0]), SV):
                ci = ct.by_name[self_class]
                ex.assume(ct.is_class(ci, env[names[0]].term))
                it.restrict_class(env[names[0]], [ci])
            # clauses see the values the arguments had on entry (the code may narrow an argument in place)
            cenv = {k: (SV(v.term, v.ty, oid=v.oid, fresh=v.fresh) if isinstance(v, SV) else v) for k, v in env.items()}
            if is_ctor:
                cenv.pop(names[0])
            # contract clauses use the parameter names of the function the contract is declared on;
            # an override may name its parameters differently (e.g. `_alias`): bind by position
            for i, cn in enumerate(canon_names):
                if i < len(names) and cn not in cenv and names[i] in env and not (is_ctor and i == 0):
                    cenv[cn] = env[names[i]]
            for c in con.requires:
                r = it.eval_clause(c.node, c.globs, it.clause_env(c, cenv))
                ex.assume(it.bterm(it.truth_term(r)))
            it.fuv_narrows = {}
            for pname, c in con.narrows.items():
                if isinstance(env.get(pname), SV):
                    val = it.eval_clause(c.node, c.globs, it.clause_env(c, cenv))
                    it.fuv_narrows[pname] = (env[pname], c, val)
            for c in con.hints:
                it.eval_clause(c.node, c.globs, it.clause_env(c, cenv))    # instances of proved lemmas
            it.depth = 0
            fr = Frame(dict(env), func.__globals__, f'{func.__module__}.{func.__qualname__}')
            fr.assigned_names = assigned_names(fnode)
            loops = sorted((n for n in ast.walk(fnode) if isinstance(n, (ast.For, ast.While))),
                           key=lambda n: (n.lineno, n.col_offset))
            for i, n in enumerate(loops):
                it._loop_ord_by_line[(fr.qualname, n.lineno)] = i
            if func.__closure__:
                for cname, cell in zip(func.__code__.co_freevars, func.__closure__):
                    fr.closure[cname] = cell.cell_contents
            gen = is_generator(fnode)
            if gen:
                fr.yielded = Box('list', items=[])
            npc_before = len(ex.st.pc)
            try:
                it.exec_block(fnode.body, fr)
                result = None
            except ReturnSig as r:
                result = r.value
            except PyRaise as e:
                end_raise(it, con, cenv, e.exc, name)
                return None
            if gen:
                result = fr.yielded
            if is_ctor:
                result = it.finish_rec(env[names[0]])
            end_return(it, con, cenv, result, name)
            return None

        results = ex.explore(body)
        res.paths = len(results)
        res.obligations = it.obligations
        res.contracts_used = sorted(it.contracts_used)
        res.specs_used = sorted(it.specs_used)
        res.lemmas_used = sorted(it.lemmas_used)
        res.uninterpreted = sorted(it.uninterpreted)
        res.writes = sorted(set(it.writes))
        # vacuity: the precondition alone must be satisfiable
        res.pre_sat = 'shape' if shape else check_pre_sat(con, names, ptys, consts, ct, self_class, is_ctor)
    except Untranslatable as e:
        res.status = 'untranslatable'
        res.message = str(e)
    except Exception as e:
        res.status = 'error'
        res.message = f'{type(e).__name__}: {e}\n{traceback.format_exc()[-1500:]}'
    if res.status == 'ok':
        t1 = time.time()
        discharge_all(res, qualname, self_class, timeout_ms)
        res.solver_time = time.time() - t1
    res.time = time.time() - t0
    return res


def _replay(qualname, self_class, res, ob):
    if ob.status == 'refuted' and ob.model is not None and ob.kind not in ('inv', 'pre', 'lemma') and qualname:
        try:
            from .runner import replay_model
            ob.replay = replay_model(qualname, self_class, res, ob)
        except Exception as e:
            ob.replay = {'confirmed': False, 'error': f'{type(e).__name__}: {e}'}
    if getattr(ob, 'candidate', False) and not (ob.replay and ob.replay.get('confirmed')):
        # a model of the ground part only that the real code does not confirm proves nothing
        ob.status, ob.backend, ob.model, ob.replay = 'unknown', 'z3+cvc5', None, None


def discharge_all(res, qualname, self_class, timeout_ms, workers=None):
    """discharge the obligations of one function; in forked children when there are many (the z3
    context is inherited by fork; results - status, back end, replay of counter-models - come back as data)"""
    import multiprocessing as mp
    import os
    obs = res.obligations
    for ob in obs:
        ob.replay = None
        ob.ladder = None
    workers = workers or int(os.environ.get('VERIF_INNER_JOBS', '8'))
    if len(obs) < 12 or workers <= 1 or os.environ.get('VERIF_SERIAL'):
        for ob in obs:
            discharge(ob, timeout_ms)
            _replay(qualname, self_class, res, ob)
        return
    ctx = mp.get_context('fork')
    chunks = [list(range(i, len(obs), workers)) for i in range(workers)]
    procs = []
    for idxs in chunks:
        if not idxs:
            continue
        parent, child = ctx.Pipe(duplex=False)
        pid = os.fork()
        if pid == 0:
            try:
                out = []
                for i in idxs:
                    ob = obs[i]
                    try:
                        discharge(ob, timeout_ms)
                        _replay(qualname, self_class, res, ob)
                        out.append((i, ob.status, ob.backend, ob.time, ob.ladder, ob.replay,
                                    str(ob.model)[:2000] if ob.model is not None else None))
                    except Exception as e:
                        out.append((i, 'unknown', f'error {type(e).__name__}: {e}', 0.0, None, None, None))
                child.send(out)
                child.close()
            finally:
                os._exit(0)
        child.close()
        procs.append((pid, parent, idxs))
    for pid, parent, idxs in procs:
        try:
            if parent.poll(max(60, len(idxs) * (timeout_ms / 1000.0) * 3 + 60)):
                out = parent.recv()
            else:
                out = []
        except EOFError:
            out = []
        try:
            os.kill(pid, 9)
        except OSError:
            pass
        try:
            os.waitpid(pid, 0)
        except OSError:
            pass
        got = set()
        for i, status, backend, tm, ladder, replay, model in out:
            ob = obs[i]
            ob.status, ob.backend, ob.time, ob.ladder, ob.replay = status, backend, tm, ladder, replay
            ob.model_str = model
            got.add(i)
        for i in idxs:
            if i not in got:
                # the forked discharger died (sporadic z3 crash) or ran out of time: once more, here
                try:
                    discharge(obs[i], timeout_ms)
                    _replay(qualname, self_class, res, obs[i])
                except Exception as e:
                    obs[i].status, obs[i].backend = 'unknown', f'worker lost; retry failed: {type(e).__name__}'


def check_pre_sat(con, names, ptys, consts, ct, self_class, is_ctor):
    ex = Explorer()
    it = Interp(ex)
    sat = []

    def body(ex):
        env = {}
        for p in names:
            ty = ptys[p]
            if isinstance(ty, Ty):
                env[p] = SV(consts[p], ty, oid=('param', p))
            elif ty[0] == 'concrete':
                env[p] = ty[1]
        if self_class is not None and isinstance(env.get(names[0]), SV):
            ex.assume(ct.is_class(ct.by_name[self_class], env[names[0]].term))
        if is_ctor:
            env.pop(names[0], None)
        for c in con.requires:
            r = it.eval_clause(c.node, c.globs, it.clause_env(c, env))
            ex.assume(it.bterm(it.truth_term(r)))
        if 'sat' in sat or len(sat) >= 3:
            return None            # one satisfiable instance is enough (vacuity guard, not a proof duty)
        s = z3.Solver()
        s.set('timeout', 1500)
        s.add(*ex.st.pc)
        sat.append(str(s.check()))
        return None
    try:
        ex.explore(body)
    except Untranslatable:
        return 'untranslatable'
    if 'sat' in sat:
        return 'sat'
    if sat and all(x == 'unsat' for x in sat):
        return 'unsat'
    return 'unknown'


def find_raise_clause(con: Contract, exc_cls, it):
    for ename, c in con.raises.items():
        ecls = it.exc_class(ename, c.globs)
        if issubclass(exc_cls, ecls):
            return ename, c
    return None, None


def end_return(it: Interp, con: Contract, env, result, name):
    env2 = dict(env)
    env2['result'] = result if not isinstance(result, Box) else it.freeze(result)
    for c in con.post_hints:
        it.eval_clause(c.node, c.globs, it.clause_env(c, env2))
    # exceptional conditions that did not fire
    for ename, c in con.raises.items():
        mode = con.raise_mode.get(ename, 'iff')
        if mode in ('iff', 'if'):
            cond = it.eval_clause(c.node, c.globs, it.clause_env(c, env))
            it.obligation(f'{name}/returns-implies-not-{c.name}', 'raises', c.tag,
                          it.neg(it.truth_term(cond)))
    for c in con.result_is:
        pname = c.name[len('result_is_'):]
        cond = it.bterm(it.truth_term(it.eval_clause(c.node, c.globs, it.clause_env(c, env))))
        same = it.bterm(it.identical(env2['result'], env[pname])) if env2['result'] is not None else z3.BoolVal(False)
        it.obligation(f'{name}/{c.name}', 'post', c.tag, z3.Implies(cond, same))
    if con.returns is not None:
        c = con.returns
        expect = it.eval_clause(c.node, c.globs, it.clause_env(c, env))
        goal = it.equal(env2['result'], expect)
        it.obligation(f'{name}/returns', 'post', c.tag, goal)
    for c in con.ensures:
        r = it.eval_clause(c.node, c.globs, it.clause_env(c, env2))
        it.obligation(f'{name}/{c.name}', 'post', c.tag, it.truth_term(r))


def end_raise(it: Interp, con: Contract, env, exc: Exc, name):
    ename, c = find_raise_clause(con, exc.cls, it)
    if c is None:
        origin = getattr(exc, 'origin', None)
        where = ('@' + origin[-1].split('.')[-1]) if origin else ''
        via = ''
        if origin and len(origin) > 1:
            # the repo function of the call chain nearest to the function under verification
            via = '<-' + origin[0].split('.')[-1]
        it.obligation(f'{name}/no-{exc.cls.__name__}{where}{via}', 'safety', getattr(it, 'safety_tag', 'aux'),
                      z3.BoolVal(False))
        return
    mode = con.raise_mode.get(ename, 'iff')
    if mode in ('iff', 'only_if'):
        cond = it.eval_clause(c.node, c.globs, it.clause_env(c, env))
        it.obligation(f'{name}/raised-implies-{c.name}', 'raises', c.tag, it.truth_term(cond))


from .solve import discharge, pointwise  # noqa: E402,F401
