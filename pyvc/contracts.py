"""Sidecar contract / spec / invariant / lemma registry.

Contracts are plain Python classes in /verif/contracts/*.py; their clause methods are *not* run
natively by the prover: their source is re-parsed and executed by the same symbolic executor that
executes the repo code.  Spec functions (@spec) are ordinary Python functions: they run natively
(oracle in replay and in the bounded tier) and are translated to z3 RecFunctions by the executor.
"""
from __future__ import annotations

import ast
import inspect
import re
import textwrap
from typing import Any, Callable, Dict, List, Optional

from .classtable import Ty, TBool, TInt, TReal, TStr, TDT, TVal, TNode, TSeq, TSet, TOpt, TEnum, TMap, TAbs, ABSTRACT_SORTS

CONTRACTS: Dict[str, 'Contract'] = {}      # qualified name -> contract
SPECS: Dict[str, 'SpecFn'] = {}            # name -> spec function
INVARIANTS: Dict[tuple, 'Invariant'] = {}  # (qualname, loop index) -> invariant
LEMMAS: Dict[str, 'Lemma'] = {}


def parse_ty(s: str, ct) -> Ty:
    s = s.strip()
    simple = {'Bool': TBool, 'Int': TInt, 'Real': TReal, 'Str': TStr, 'DT': TDT, 'Val': TVal}
    if s in simple:
        return simple[s]()
    if s in ABSTRACT_SORTS:
        return TAbs(s)
    m = re.fullmatch(r'(\w+)\[(.*)\]', s)
    if m:
        k, inner = m.group(1), m.group(2)
        if k == 'Seq':
            return TSeq(parse_ty(inner, ct))
        if k == 'Set':
            return TSet(parse_ty(inner, ct))
        if k == 'Opt':
            return TOpt(parse_ty(inner, ct))
        if k == 'Map':
            return TMap(parse_ty(inner, ct))
        if k == 'Enum':
            for mod in ct.modules.values():
                if hasattr(mod, inner):
                    return TEnum(getattr(mod, inner))
            raise KeyError(inner)
    if s in ct.sort_classes:
        return TNode(s)
    raise KeyError(f'unknown type name {s!r}')


def _fundef_of(fn) -> ast.FunctionDef:
    src = textwrap.dedent(inspect.getsource(fn))
    tree = ast.parse(src)
    node = tree.body[0]
    assert isinstance(node, (ast.FunctionDef,)), node
    return node


class Clause:
    def __init__(self, name, fn, tag, kind):
        self.name = name
        self.fn = fn
        self.node = _fundef_of(fn)
        self.tag = tag          # property id, or 'aux'
        self.kind = kind        # requires | ensures | raises | returns | decreases


class Contract:
    def __init__(self, qualname, cls, virtual, props):
        self.qualname = qualname
        self.virtual = virtual
        self.props = props
        self.cls = cls
        self.params: Dict[str, str] = dict(getattr(cls, 'params', {}))
        self.result: Optional[str] = getattr(cls, 'result', None)
        self.raise_mode: Dict[str, str] = dict(getattr(cls, 'raise_mode', {}))
        self.modifies = getattr(cls, 'modifies', ())       # () = frame: nothing reachable from params changes
        self.level = getattr(cls, 'level', 0)
        self.pure_call = getattr(cls, 'pure_call', True)
        self.result_fresh = getattr(cls, 'result_fresh', False)
        self.inline_when_known = getattr(cls, 'inline_when_known', False)
        self.requires: List[Clause] = []
        self.ensures: List[Clause] = []
        self.raises: Dict[str, Clause] = {}
        self.returns: Optional[Clause] = None
        self.decreases: Optional[Clause] = None
        self.result_is: List[Clause] = []
        self.hints: List[Clause] = []
        self.post_hints: List[Clause] = []
        self.narrows: Dict[str, Clause] = {}    # declared in-place narrowing of an argument's stored type (W2)
        default_tag = props[0] if props else 'aux'
        for name, fn in vars(cls).items():
            if not inspect.isfunction(fn):
                continue
            tag = getattr(fn, '_tag', default_tag)
            if name.startswith('requires'):
                self.requires.append(Clause(name, fn, tag, 'requires'))
            elif name.startswith('ensures'):
                self.ensures.append(Clause(name, fn, tag, 'ensures'))
            elif name.startswith('raises_'):
                self.raises[name[len('raises_'):]] = Clause(name, fn, tag, 'raises')
            elif name == 'returns':
                self.returns = Clause(name, fn, tag, 'returns')
            elif name == 'decreases':
                self.decreases = Clause(name, fn, tag, 'decreases')
            elif name.startswith('narrows_'):
                self.narrows[name[len('narrows_'):]] = Clause(name, fn, tag, 'narrows')
            elif name.startswith('hint_post'):
                # evaluated on return, with `result`, before the postconditions (instances of proved lemmas / axioms)
                self.post_hints.append(Clause(name, fn, 'aux', 'hint'))
            elif name.startswith('hint'):
                self.hints.append(Clause(name, fn, 'aux', 'hint'))
            elif name.startswith('result_is_'):
                self.result_is.append(Clause(name, fn, tag, 'result_is'))

    def __repr__(self):
        return f'Contract({self.qualname})'


def contract(qualname, *, virtual=False, props=()):
    def deco(cls):
        c = Contract(qualname, cls, virtual, list(props))
        CONTRACTS[qualname] = c
        return cls
    return deco


def tag(t):
    def deco(fn):
        fn._tag = t
        return fn
    return deco


aux = tag('aux')


class SpecFn:
    def __init__(self, fn, opaque=False, inline=False):
        self.inline = inline     # non-recursive definition: expanded at every use (a macro)
        self.fn = fn
        self.name = fn.__name__
        self.node = _fundef_of(fn)
        self.ann = dict(fn.__annotations__)
        self.z3fun = None
        self.defined = False
        self.opaque = opaque


def spec(fn=None, *, opaque=False, inline=False):
    def deco(f):
        s = SpecFn(f, opaque=opaque, inline=inline)
        SPECS[f.__name__] = s
        f._spec = s
        return f
    return deco(fn) if fn is not None else deco


class Invariant:
    def __init__(self, qualname, loop, fn, types, tagv, hint=None, pre_hint=None):
        self.pre_hint = pre_hint
        self.pre_hint_node = _fundef_of(pre_hint) if pre_hint is not None else None
        self.hint = hint
        self.hint_node = _fundef_of(hint) if hint is not None else None
        self.qualname = qualname
        self.loop = loop
        self.fn = fn
        self.node = _fundef_of(fn)
        self.types = types or {}
        self.tag = tagv


def invariant(qualname, loop=0, types=None, tag='aux', hint=None, pre_hint=None):
    """hint: a function over the locals after the loop body (and their values `old_<name>` at the
    start of the iteration) that calls instances of proved lemmas"""
    def deco(fn):
        INVARIANTS[(qualname, loop)] = Invariant(qualname, loop, fn, types, tag, hint, pre_hint)
        return fn
    return deco


class Lemma:
    """A fact about spec functions.  `statement` is a function whose parameters are universally
    quantified (types from annotations) and which returns the claim; `induction_on` names a
    parameter of node or Seq type; the prover generates one obligation per constructor with the
    induction hypothesis for every direct child, never the lemma itself."""

    def __init__(self, fn, induction_on, props, uses, hint=None, axiom=False, auto=(), patterns=None):
        self.axiom = axiom          # assumed, never proved: listed among the unchecked assumptions of every user
        self.auto = tuple(auto)     # spec names: the (proved) lemma is added, universally quantified, to every
        #                             obligation of a task that uses one of these specs
        self.patterns = patterns    # optional function of the same parameters returning the E-matching trigger terms
        self.patterns_node = _fundef_of(patterns) if patterns is not None else None
        self.hint = hint
        self.hint_node = _fundef_of(hint) if hint is not None else None
        self.fn = fn
        self.name = fn.__name__
        self.node = _fundef_of(fn)
        self.ann = dict(fn.__annotations__)
        self.induction_on = induction_on
        self.props = list(props)
        self.uses = list(uses)


def lemma(induction_on=None, props=(), uses=(), hint=None, axiom=False, auto=(), patterns=None):
    """hint: function of the same parameters calling instances of earlier lemmas; evaluated for the
    goal of each case only (it may branch on the case), never inside induction hypotheses"""
    def deco(fn):
        lm = Lemma(fn, induction_on, props, uses, hint, axiom, auto, patterns)
        lm.index = len(LEMMAS)
        LEMMAS[fn.__name__] = lm
        fn._lemma = lm
        return fn
    return deco


def _globs(self):
    g = dict(self.fn.__globals__)
    if self.fn.__closure__:
        for n, cell in zip(self.fn.__code__.co_freevars, self.fn.__closure__):
            g[n] = cell.cell_contents
    return g


for _c in (Clause, SpecFn, Invariant, Lemma):
    _c.globs = property(_globs)


def unfold(fn, *args):
    """hint: one instance of the definition of spec function fn at args (valid by definition).
    Natively a no-op; the prover assumes  fn(args) == body[args]."""
    return True


def the(x):
    """the value of an Optional that is known not to be None (natively the identity)"""
    assert x is not None
    return x


def resolve_qualname(qualname: str):
    """'hpl.types.DataType.cast' -> (module, owner class or None, attribute name, raw object)"""
    import importlib
    parts = qualname.split('.')
    for i in range(len(parts), 0, -1):
        try:
            mod = importlib.import_module('.'.join(parts[:i]))
        except ImportError:
            continue
        obj = mod
        owner = None
        for p in parts[i:]:
            owner = obj if inspect.isclass(obj) else None
            if inspect.isclass(obj):
                obj = inspect.getattr_static(obj, p)
            else:
                obj = getattr(obj, p)
        return mod, owner, parts[-1], obj
    raise ImportError(qualname)


def unwrap_function(obj):
    """the plain function behind staticmethod / classmethod / property / typeguard wrappers"""
    if isinstance(obj, (staticmethod, classmethod)):
        obj = obj.__func__
    if isinstance(obj, property):
        obj = obj.fget
    for _ in range(8):
        if hasattr(obj, '__wrapped__'):
            obj = obj.__wrapped__
        elif type(obj).__name__ == '_VArgsWrapper' and hasattr(obj, 'base_func'):
            obj = obj.base_func          # lark's v_args decoration of a transformer callback
        else:
            break
    return obj


def raw_field(x, cls_name, field_name):
    """(trigger patterns only) the accessor term cls.field applied to x without any class test"""
    return getattr(x, field_name)
