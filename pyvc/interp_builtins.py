"""Models of Python builtins, container methods and attrs stock validators (trusted: A-PY, A-ATTRS)."""
from __future__ import annotations

import ast
import builtins
import enum
import inspect
import math
from typing import Any, Dict, List, Optional

import z3

from .classtable import (Ty, TBool, TInt, TReal, TStr, TDT, TVal, TNode, TSeq, TSet, TOpt, TEnum, TMap, DT_BITS)
from .values import (MetaBox, SV, Rec, Box, Exc, BoundMethod, VirtualMethod, Closure, FunSym, Opaque, PyRaise,
                     ReturnSig, Untranslatable, is_concrete)
from .interp_expr import BuiltinMethod, Frame
from . import recfuns


class Reversed:
    def __init__(self, v):
        self.v = v


class Zipped:
    def __init__(self, vs):
        self.vs = vs


class BuiltinsMixin:
    mutation_counter = 0

    # ------------------------------------------------------------------ builtin functions
    def call_builtin(self, f, args, kwargs, fr, node):
        name = getattr(f, '__name__', None)
        if name == '__get__' and getattr(f, '__self__', None) is object.__setattr__:
            # attrs' `_cached_setattr_get(self)`: object.__setattr__ bound to the object under construction
            from .interp_expr import BuiltinMethod as _BM
            return _BM('rec.setattr', args[0])
        if f is object.__setattr__ or (name == '__setattr__' and getattr(f, '__objclass__', None) is object):
            return self.object_setattr(args[0], args[1], args[2], fr, node)
        m = getattr(self, 'bi_' + str(name), None)
        if m is not None and (getattr(builtins, name, None) is f or getattr(math, name, None) is f):
            return m(args, kwargs, fr, node)
        if is_concrete(args) and is_concrete(kwargs):
            return self.native_call(f, args, kwargs, fr, node)
        raise Untranslatable(f'builtin {name} with symbolic arguments')

    def call_class_builtin(self, cls, args, kwargs, fr, node):
        m = getattr(self, 'bi_' + cls.__name__, None)
        if m is not None:
            return m(args, kwargs, fr, node)
        return None

    # classes that are builtins: tuple, list, set, dict, int, float, str, bool, reversed, zip, range
    def model_class_tuple(self, cls, args, kwargs, fr, node):
        if not args:
            return ()
        v = args[0]
        return self.to_tuple(v)

    def to_tuple(self, v):
        if isinstance(v, Box):
            if v.term is None:
                return tuple(v.items) if v.kind != 'dict' else tuple(v.items.keys())
            if v.kind == 'list':
                return SV(v.term, TSeq(v.elem))
            raise Untranslatable('tuple() of symbolic set')
        if isinstance(v, SV):
            if isinstance(v.ty, TSeq):
                return v
            raise Untranslatable(f'tuple() of {v.ty!r}')
        if isinstance(v, Reversed):
            return self.reverse(v.v)
        return tuple(v)

    def model_class_list(self, cls, args, kwargs, fr, node):
        if not args:
            return Box('list', items=[])
        t = self.to_tuple(args[0])
        if isinstance(t, SV):
            return Box('list', term=t.term, elem=t.ty.elem)
        return Box('list', items=list(t))

    def model_class_set(self, cls, args, kwargs, fr, node):
        b = Box('set', items=[])
        if not args:
            return b
        t = self.to_tuple(args[0]) if not (isinstance(args[0], Box) and args[0].kind == 'set') else args[0]
        if isinstance(t, Box):
            return Box('set', items=list(t.items) if t.items is not None else None, term=t.term, elem=t.elem)
        if isinstance(t, SV):
            b = Box('set', term=self.seq_to_set(t), elem=t.ty.elem)
            b.from_seq = t.term
            return b
        for x in t:
            self.set_add(b, x)
        return b

    def seq_to_set(self, sv: SV):
        """{x | x in seq} as a z3 set: lambda-defined membership"""
        ety = sv.ty.elem
        x = z3.Const(self.ex.fresh_name('x'), ety.z3sort())
        return z3.Lambda([x], z3.Contains(sv.term, z3.Unit(x)))

    def model_class_dict(self, cls, args, kwargs, fr, node):
        if not args:
            return Box('dict', items=dict(kwargs))
        v = args[0]
        if isinstance(v, MetaBox):
            return MetaBox(('copy', v.owner))
        if isinstance(v, Box) and v.kind == 'dict' and v.items is not None:
            return Box('dict', items=dict(v.items))
        if isinstance(v, dict):
            return Box('dict', items=dict(v))
        if isinstance(v, SV) and isinstance(v.ty, TMap):
            return self.copy_map(v)
        raise Untranslatable('dict() of symbolic value')

    def copy_map(self, v):
        return SV(v.term, v.ty, oid=self.new_oid('dict'), fresh=True)

    def model_class_bool(self, cls, args, kwargs, fr, node):
        if not args:
            return False
        return self.wrap_bool(self.truth_term(args[0]))

    def model_class_int(self, cls, args, kwargs, fr, node):
        v = args[0]
        if isinstance(v, SV) and isinstance(v.ty, TOpt):
            v = self.coerce(v, v.ty.elem)
        if isinstance(v, SV):
            if isinstance(v.ty, TInt):
                return v
            if isinstance(v.ty, TBool):
                return SV(z3.If(v.term, z3.IntVal(1), z3.IntVal(0)), TInt())
            if isinstance(v.ty, TReal):
                # int() truncates toward zero
                t = v.term
                return SV(z3.If(t >= 0, z3.ToInt(t), -z3.ToInt(-t)), TInt())
            if isinstance(v.ty, TStr):
                # int(str): defined on decimal digit strings; otherwise ValueError
                ok = self.str_is_int(v.term)
                if not self.ex.branch(ok, 'int(str)-ok'):
                    self.raise_exc(ValueError, 'invalid literal for int()', fr, node)
                return SV(self.str_to_int(v.term), TInt())
            if isinstance(v.ty, TVal):
                return self.val_convert('int', v, fr, node)
            raise Untranslatable(f'int() of {v.ty!r}')
        return self.native_call(int, args, kwargs, fr, node)

    def str_is_int(self, t):
        f = z3.Function('py_str_is_int', z3.StringSort(), z3.BoolSort())
        return f(t)

    def str_to_int(self, t):
        f = z3.Function('py_int_of_str', z3.StringSort(), z3.IntSort())
        self.note_uninterpreted('py_int_of_str')
        return f(t)

    def str_is_float(self, t):
        f = z3.Function('py_str_is_float', z3.StringSort(), z3.BoolSort())
        return f(t)

    def str_to_float(self, t):
        f = z3.Function('py_float_of_str', z3.StringSort(), z3.RealSort())
        self.note_uninterpreted('py_float_of_str')
        return f(t)

    def note_uninterpreted(self, name):
        self.uninterpreted.add(name)

    def model_class_float(self, cls, args, kwargs, fr, node):
        v = args[0]
        if isinstance(v, SV) and isinstance(v.ty, TOpt):
            v = self.coerce(v, v.ty.elem)
        if isinstance(v, SV):
            if isinstance(v.ty, TReal):
                return v
            if isinstance(v.ty, TInt):
                return SV(z3.ToReal(v.term), TReal())
            if isinstance(v.ty, TStr):
                ok = self.str_is_float(v.term)
                if not self.ex.branch(ok, 'float(str)-ok'):
                    self.raise_exc(ValueError, 'could not convert string to float', fr, node)
                return SV(self.str_to_float(v.term), TReal())
            if isinstance(v.ty, TVal):
                return self.val_convert('float', v, fr, node)
            raise Untranslatable(f'float() of {v.ty!r}')
        return self.native_call(float, args, kwargs, fr, node)

    def model_class_str(self, cls, args, kwargs, fr, node):
        if not args:
            return ''
        return self.to_str(args[0], fr, node)

    def to_str(self, v, fr, node):
        if isinstance(v, str):
            return v
        if isinstance(v, SV):
            if isinstance(v.ty, TStr):
                return v
            if isinstance(v.ty, TNode):
                f = self.node_getattr(v, '__str__', fr, node)
                return self.call_value(f, [], {}, fr, node)
            if isinstance(v.ty, TOpt):
                return Opaque('str(optional)')
            if isinstance(v.ty, TInt):
                return SV(z3.IntToStr(v.term), TStr()) if False else Opaque('str(int)')
            return Opaque(f'str({v.ty!r})')
        if isinstance(v, (Rec, Box, Exc, Opaque, tuple)):
            if isinstance(v, Rec):
                try:
                    a = self.pyclass_getattr(v.ci.cls, v, '__str__', fr, node)
                    return self.call_value(a, [], {}, fr, node)
                except (Untranslatable, PyRaise):
                    return Opaque('str(rec)')
            return Opaque('str')
        if is_concrete(v):
            try:
                return str(v)
            except Exception as e:
                raise PyRaise(Exc(type(e), (str(e),)))
        return Opaque('str')

    def model_class_reversed(self, cls, args, kwargs, fr, node):
        return Reversed(args[0])

    def model_class_zip(self, cls, args, kwargs, fr, node):
        return Zipped(list(args))

    def model_class_range(self, cls, args, kwargs, fr, node):
        if is_concrete(args):
            return range(*args)
        return ('range', args)

    def model_class_object(self, cls, args, kwargs, fr, node):
        return object()

    def model_class_type(self, cls, args, kwargs, fr, node):
        v = args[0]
        if isinstance(v, Rec):
            return v.ci.cls
        if isinstance(v, SV):
            if isinstance(v.ty, TDT):
                return self.ct.DataType
            if isinstance(v.ty, TNode):
                cis = self.class_set(v)
                conds = [self.bterm(self.ct.is_class(ci, v.term)) for ci in cis]
                i = self.ex.choose(conds, [f'type:{ci.name}' for ci in cis])
                self.restrict_class(v, [cis[i]])
                return cis[i].cls
            raise Untranslatable('type() of symbolic value')
        return type(v)

    def reverse(self, v):
        if isinstance(v, Box):
            if v.term is None:
                return tuple(reversed(v.items))
            v = SV(v.term, TSeq(v.elem))
        if isinstance(v, SV) and isinstance(v.ty, TSeq):
            return SV(self.seq_rev(v.ty)(v.term), v.ty)
        return tuple(reversed(v))

    def seq_rev(self, ty: TSeq):
        key = ('rev', repr(ty))
        if key not in self.aux_funs:
            srt = ty.z3sort()
            f = z3.RecFunction(f'rev_{ty.elem!r}', srt, srt)
            s = z3.Const('s', srt)
            n = z3.Length(s)
            recfuns.define(f, [s], z3.If(n == 0, s, z3.Concat(f(z3.SubSeq(s, 1, n - 1)), z3.Unit(s[0]))))
            self.aux_funs[key] = f
        return self.aux_funs[key]

    # ---- simple builtins
    def bi_len(self, args, kwargs, fr, node):
        v = args[0]
        if isinstance(v, Box):
            if v.term is None:
                return len(v.items)
            if v.kind == 'list':
                return SV(z3.Length(v.term), TInt())
            if v.kind == 'set':
                return SV(self.set_card(v), TInt())
        if isinstance(v, SV):
            if isinstance(v.ty, (TSeq, TStr)):
                return SV(z3.Length(v.term), TInt())
            if isinstance(v.ty, TVal):
                V = self.ct.Val
                if not self.ex.branch(V.is_VStr(v.term), 'len(payload)-str'):
                    self.raise_exc(TypeError, 'object of this type has no len()', fr, node)
                return SV(z3.Length(V.vstr(v.term)), TInt())
            raise Untranslatable(f'len of {v.ty!r}')
        return len(v)

    def set_card(self, b: Box):
        f = z3.Function(f'card_{b.elem!r}', z3.SetSort(b.elem.z3sort()), z3.IntSort())
        self.note_uninterpreted(f'card_{b.elem!r}')
        self.ex.assume(f(b.term) >= 0)
        return f(b.term)

    def bi_isinstance(self, args, kwargs, fr, node):
        v, cls = args
        return self.wrap_bool(self.isinstance_term(v, cls))

    def isinstance_term(self, v, cls):
        if isinstance(cls, tuple):
            return self.disj([self.isinstance_term(v, c) for c in cls])
        if isinstance(v, SV):
            ty = v.ty
            if isinstance(ty, TNode):
                if not inspect.isclass(cls):
                    return False
                if cls is object:
                    return True
                cis = [ci for ci in self.ct.sort_classes[ty.sort] if issubclass(ci.cls, cls)]
                if len(cis) == len(self.ct.sort_classes[ty.sort]):
                    return True
                return self.class_cond(v, cis)
            if isinstance(ty, TOpt):
                inner = SV(self.ct.opt_the(ty.elem, v.term), ty.elem)
                r = self.isinstance_term(inner, cls)
                nn = z3.Not(self.ct.opt_is_none(ty.elem, v.term))
                if cls is type(None):
                    return self.ct.opt_is_none(ty.elem, v.term)
                return self.conj([nn, r])
            if isinstance(ty, TVal):
                V = self.ct.Val
                t = v.term
                if cls is bool:
                    return V.is_VBool(t)
                if cls is int:
                    return z3.Or(V.is_VBool(t), V.is_VInt(t))
                if cls is float:
                    return V.is_VFloat(t)
                if cls is str:
                    return V.is_VStr(t)
                if cls is complex:
                    return False
                if cls is object:
                    return True
                return False
            pycls = {TBool: bool, TInt: int, TReal: float, TStr: str}.get(type(ty))
            if pycls is not None:
                if pycls is bool and cls is int:
                    return True
                return inspect.isclass(cls) and issubclass(pycls, cls)
            if isinstance(ty, TDT):
                return cls is self.ct.DataType or cls in self.ct.DataType.__mro__
            if isinstance(ty, TEnum):
                return inspect.isclass(cls) and issubclass(ty.pyenum, cls)
            if isinstance(ty, TSeq):
                return cls in (tuple, object)
            if isinstance(ty, TMap):
                return cls in (dict, object) or getattr(cls, '__name__', '') == 'Mapping'
            return False
        if isinstance(v, Rec):
            return issubclass(v.ci.cls, cls)
        if isinstance(v, Box):
            return cls in ({'list': list, 'set': set, 'dict': dict}[v.kind], object)
        if isinstance(v, Exc):
            return inspect.isclass(cls) and issubclass(v.cls, cls)
        if isinstance(v, (Closure, FunSym, BoundMethod, VirtualMethod)):
            return False
        return isinstance(v, cls)

    def bi_any(self, args, kwargs, fr, node):
        return self.fold_bool(args[0], True)

    def bi_all(self, args, kwargs, fr, node):
        return self.fold_bool(args[0], False)

    def fold_bool(self, v, is_any):
        if isinstance(v, Box) and v.term is None:
            v = tuple(v.items)
        if isinstance(v, (tuple, list)):
            ts = [self.truth_term(x) for x in v]
            return self.wrap_bool(self.disj(ts) if is_any else self.conj(ts))
        if isinstance(v, SV) and v.meta is not None and v.meta[0] == 'comp' and isinstance(v.meta[5], TBool):
            return SV(self.fused_fold(is_any, v.meta), TBool())
        if isinstance(v, (SV, Box)):
            t = self.term(v)
            ty = self.ty_of(v)
            if isinstance(ty, TSeq) and isinstance(ty.elem, TBool):
                f = self.seq_fold_bool(is_any)
                return SV(f(t), TBool())
        raise Untranslatable('any/all over symbolic sequence of non-booleans')

    def seq_fold_bool(self, is_any):
        key = ('foldb', is_any)
        if key not in self.aux_funs:
            srt = z3.SeqSort(z3.BoolSort())
            f = z3.RecFunction('seq_any' if is_any else 'seq_all', srt, z3.BoolSort())
            s = z3.Const('s', srt)
            n = z3.Length(s)
            rest = f(z3.SubSeq(s, 1, n - 1))
            recfuns.define(f, [s], z3.If(n == 0, z3.BoolVal(not is_any),
                                              z3.Or(s[0], rest) if is_any else z3.And(s[0], rest)))
            self.aux_funs[key] = f
        return self.aux_funs[key]

    def bi_min(self, args, kwargs, fr, node):
        return self.minmax(args, True, fr, node)

    def bi_max(self, args, kwargs, fr, node):
        return self.minmax(args, False, fr, node)

    def minmax(self, args, is_min, fr, node):
        if len(args) == 1:
            v = args[0]
            if isinstance(v, Box) and v.term is None:
                v = tuple(v.items)
            if isinstance(v, (tuple, list)):
                if len(v) == 0:
                    self.raise_exc(ValueError, 'min()/max() arg is an empty sequence', fr, node)
                return self.minmax(list(v), is_min, fr, node) if len(v) > 1 else v[0]
            if isinstance(v, (SV, Box)):
                raise Untranslatable('min/max of symbolic sequence')
            # single non-iterable argument
            self.raise_exc(TypeError, 'object is not iterable', fr, node)
        if len(args) == 0:
            self.raise_exc(TypeError, 'min/max expected at least 1 argument, got 0', fr, node)
        if is_concrete(args):
            return (min if is_min else max)(*args)
        cur = args[0]
        for nxt in args[1:]:
            c = self.order(ast.Lt() if is_min else ast.Gt(), nxt, cur, fr, node)
            if isinstance(c, bool):
                cur = nxt if c else cur
                continue
            ty = self.ty_of(cur) or self.ty_of(nxt)
            if self.ty_of(cur) != self.ty_of(nxt):
                if isinstance(self.ty_of(cur), (TInt, TReal)) and isinstance(self.ty_of(nxt), (TInt, TReal)):
                    ty = TReal()
                    cur_t, nxt_t = self.num_term(cur), self.num_term(nxt)
                    cur = SV(z3.If(c, nxt_t, cur_t), ty)
                    continue
                raise Untranslatable('min/max of mixed types')
            cur = SV(z3.If(c, self.term(nxt, ty), self.term(cur, ty)), ty)
        return cur

    def bi_abs(self, args, kwargs, fr, node):
        v = args[0]
        if isinstance(v, SV):
            if isinstance(v.ty, (TInt, TReal)):
                return SV(z3.If(v.term >= 0, v.term, -v.term), v.ty)
            if isinstance(v.ty, TVal):
                return self.val_arith('abs', v, None, fr, node)
            raise Untranslatable('abs')
        return abs(v)

    def bi_sum(self, args, kwargs, fr, node):
        v = args[0]
        if isinstance(v, Box) and v.term is None:
            v = tuple(v.items)
        if isinstance(v, (tuple, list)):
            acc = 0
            for x in v:
                acc = self.binop(ast.Add(), acc, x, fr, node)
            return acc
        raise Untranslatable('sum over symbolic sequence')

    def bi_print(self, args, kwargs, fr, node):
        self.effects_io.append(('print', args, kwargs))
        return None

    def bi_getattr(self, args, kwargs, fr, node):
        obj, name = args[0], args[1]
        if not isinstance(name, str):
            raise Untranslatable('getattr with symbolic name')
        if len(args) == 3:
            try:
                return self.getattr_value(obj, name, fr, node)
            except PyRaise as e:
                if issubclass(e.exc.cls, AttributeError):
                    return args[2]
                raise
        return self.getattr_value(obj, name, fr, node)

    def bi_repr(self, args, kwargs, fr, node):
        if is_concrete(args):
            return repr(args[0])
        return Opaque('repr')

    def bi_vars(self, args, kwargs, fr, node):
        if is_concrete(args):
            return vars(args[0])
        raise Untranslatable('vars')

    def bi_id(self, args, kwargs, fr, node):
        raise Untranslatable('id')

    def bi_hash(self, args, kwargs, fr, node):
        raise Untranslatable('hash')

    def bi_isinf(self, args, kwargs, fr, node):
        v = args[0]
        if isinstance(v, SV) and isinstance(v.ty, (TReal, TInt)):
            return False       # A-REAL: a symbolic number is a finite mathematical real
        return self.native_call(math.isinf, args, kwargs, fr, node)

    def bi_isnan(self, args, kwargs, fr, node):
        v = args[0]
        if isinstance(v, SV) and isinstance(v.ty, (TReal, TInt)):
            return False
        return self.native_call(math.isnan, args, kwargs, fr, node)

    def bi_sqrt(self, args, kwargs, fr, node):
        return self.math_fn('sqrt', args, fr, node)

    def math_fn(self, name, args, fr, node):
        if is_concrete(args):
            return self.native_call(getattr(math, name), args, {}, fr, node)
        raise Untranslatable(f'math.{name} with symbolic argument')

    # ------------------------------------------------------------------ object.__setattr__
    def object_setattr(self, target, name, value, fr, node):
        if not isinstance(name, str):
            raise Untranslatable('setattr with symbolic name')
        if isinstance(target, Rec):
            if target.done:
                # object already converted to a value: a write now is a W2-like effect on a fresh object
                raise Untranslatable('write to a finished record')
            target.fields[name] = value
            self.writes.append(('W1', target.ci.name, name))
            return None
        if isinstance(target, SV) and isinstance(target.ty, TNode):
            return self.effect_write(target, name, value, fr, node)
        raise Untranslatable(f'object.__setattr__ on {target!r}')

    # ------------------------------------------------------------------ container methods
    def set_add(self, b: Box, v):
        self.mutation_counter += 1
        if b.term is None:
            if is_concrete(v) and all(is_concrete(x) for x in b.items):
                if v not in b.items:
                    b.items.append(v)
                return
            # symbolic element: membership becomes symbolic
            ety = self.ty_of(v) if b.elem is None else b.elem
            if ety is None:
                raise Untranslatable('set element of unknown type')
            b.elem = ety
            self.box_symbolize(b, TSet(ety))
        b.term = z3.SetAdd(b.term, self.term(v, b.elem))

    def call_builtin_method(self, bm: BuiltinMethod, args, kwargs, fr, node):
        kind = bm.kind
        recv = bm.recv
        m = getattr(self, 'bm_' + kind.replace('.', '_'), None)
        if m is None:
            raise Untranslatable(f'method {kind}')
        return m(recv, args, kwargs, fr, node)

    # lists
    def bm_list_append(self, b, args, kwargs, fr, node):
        self.mutation_counter += 1
        v = args[0]
        if b.term is None:
            b.items.append(v)
        else:
            b.term = z3.Concat(b.term, z3.Unit(self.term(v, b.elem)))

    def bm_list_extend(self, b, args, kwargs, fr, node):
        self.mutation_counter += 1
        v = args[0]
        if isinstance(v, Reversed):
            v = self.reverse(v.v)
        if isinstance(v, Box) and v.term is None:
            v = tuple(v.items)
        if b.term is None and isinstance(v, (tuple, list)):
            b.items.extend(v)
            return
        ty = self.ty_of(v) if not isinstance(v, (tuple, list)) or len(v) else None
        if b.term is None:
            if b.elem is None:
                if ty is None:
                    ty = self.ty_of(b)
                if ty is None:
                    raise Untranslatable('extend: unknown element type')
                b.elem = ty.elem
            self.box_symbolize(b, TSeq(b.elem))
        b.term = z3.Concat(b.term, self.term(v, TSeq(b.elem)))

    def bm_list_pop(self, b, args, kwargs, fr, node):
        self.mutation_counter += 1
        if args and args[0] != -1:
            if b.term is None and isinstance(args[0], int):
                try:
                    return b.items.pop(args[0])
                except IndexError:
                    self.raise_exc(IndexError, 'pop index out of range', fr, node)
            if args[0] == 0 and b.term is not None:
                n = z3.Length(b.term)
                if not self.ex.branch(n > 0, 'pop-nonempty'):
                    self.raise_exc(IndexError, 'pop from empty list', fr, node)
                x = SV(b.term[0], b.elem)
                b.term = z3.SubSeq(b.term, 1, n - 1)
                return x
            raise Untranslatable('list.pop(i)')
        if b.term is None:
            if not b.items:
                self.raise_exc(IndexError, 'pop from empty list', fr, node)
            return b.items.pop()
        n = z3.Length(b.term)
        if not self.ex.branch(n > 0, 'pop-nonempty'):
            self.raise_exc(IndexError, 'pop from empty list', fr, node)
        x = SV(b.term[n - 1], b.elem)
        b.term = z3.SubSeq(b.term, 0, n - 1)
        return x

    def bm_list_copy(self, b, args, kwargs, fr, node):
        return Box('list', items=list(b.items) if b.items is not None else None, term=b.term, elem=b.elem)

    # sets
    def bm_set_add(self, b, args, kwargs, fr, node):
        self.set_add(b, args[0])

    def bm_set_update(self, b, args, kwargs, fr, node):
        self.mutation_counter += 1
        for v in args:
            if isinstance(v, Box) and v.term is None and v.kind in ('set', 'list'):
                for x in v.items:
                    self.set_add(b, x)
                continue
            if isinstance(v, (tuple, list)):
                for x in v:
                    self.set_add(b, x)
                continue
            ty = self.ty_of(v)
            if isinstance(ty, TSeq):
                t = self.seq_to_set(SV(self.term(v), ty))
                ety = ty.elem
            elif isinstance(ty, TSet):
                t = self.term(v)
                ety = ty.elem
            else:
                raise Untranslatable('set.update argument')
            if b.elem is None:
                b.elem = ety
            self.box_symbolize(b, TSet(ety))
            b.term = z3.SetUnion(b.term, t)

    def bm_set_discard(self, b, args, kwargs, fr, node):
        self.mutation_counter += 1
        v = args[0]
        if b.term is None and is_concrete(v) and all(is_concrete(x) for x in b.items):
            if v in b.items:
                b.items.remove(v)
            return
        if b.elem is None:
            b.elem = self.ty_of(v)
        self.box_symbolize(b, TSet(b.elem))
        b.term = z3.SetDel(b.term, self.term(v, b.elem))

    def bm_set_remove(self, b, args, kwargs, fr, node):
        v = args[0]
        present = self.contains(b, v, fr, node)
        if not self.ex.branch(self.bterm(present), 'remove-present'):
            self.raise_exc(KeyError, 'set.remove', fr, node)
        self.bm_set_discard(b, args, kwargs, fr, node)

    def _set_arg_term(self, b, v):
        if isinstance(v, Box) and v.term is None and v.kind in ('set', 'list'):
            v = tuple(v.items)
        if isinstance(v, (tuple, list)):
            ety = b.elem or (self.ty_of(v[0]) if v else None)
            if ety is None:
                raise Untranslatable('set operation with unknown element type')
            t = z3.EmptySet(ety.z3sort())
            for x in v:
                t = z3.SetAdd(t, self.term(x, ety))
            return t, ety
        ty = self.ty_of(v)
        if isinstance(ty, TSeq):
            return self.seq_to_set(SV(self.term(v), ty)), ty.elem
        if isinstance(ty, TSet):
            return self.term(v), ty.elem
        raise Untranslatable('set operation argument')

    def _set_inplace(self, b, args, op):
        self.mutation_counter += 1
        for v in args:
            t, ety = self._set_arg_term(b, v)
            if b.elem is None:
                b.elem = ety
            self.box_symbolize(b, TSet(b.elem))
            b.term = op(b.term, t)

    def bm_set_difference_update(self, b, args, kwargs, fr, node):
        self._set_inplace(b, args, z3.SetDifference)

    def bm_set_intersection_update(self, b, args, kwargs, fr, node):
        self._set_inplace(b, args, z3.SetIntersect)

    def _set_pure(self, b, args, op):
        nb = Box('set', items=list(b.items) if b.items is not None else None, term=b.term, elem=b.elem)
        self._set_inplace(nb, args, op)
        return nb

    def bm_set_union(self, b, args, kwargs, fr, node):
        return self._set_pure(b, args, z3.SetUnion)

    def bm_set_difference(self, b, args, kwargs, fr, node):
        return self._set_pure(b, args, z3.SetDifference)

    def bm_set_intersection(self, b, args, kwargs, fr, node):
        return self._set_pure(b, args, z3.SetIntersect)

    def bm_set_issubset(self, b, args, kwargs, fr, node):
        t, ety = self._set_arg_term(b, args[0])
        return self.wrap_bool(z3.IsSubset(self.term(b, TSet(b.elem or ety)), t))

    def bm_set_copy(self, b, args, kwargs, fr, node):
        return Box('set', items=list(b.items) if b.items is not None else None, term=b.term, elem=b.elem)

    # dicts (concrete keys)
    def bm_dict_get(self, b, args, kwargs, fr, node):
        if b.items is None:
            raise Untranslatable('symbolic dict box')
        k = args[0]
        default = args[1] if len(args) > 1 else kwargs.get('default')
        if is_concrete(k):
            return b.items.get(k, default)
        # symbolic key against concrete keys: a chain of equalities
        keys = list(b.items)
        conds = [self.bterm(self.equal(k, kk)) for kk in keys]
        conds.append(z3.And(*[z3.Not(c) for c in conds]) if conds else z3.BoolVal(True))
        i = self.ex.choose(conds, [f'key:{kk}' for kk in keys] + ['key:none'])
        if i == len(keys):
            return default
        return b.items[keys[i]]

    def bm_dict_items(self, b, args, kwargs, fr, node):
        return tuple((k, v) for k, v in b.items.items())

    def bm_dict_values(self, b, args, kwargs, fr, node):
        return tuple(b.items.values())

    def bm_dict_keys(self, b, args, kwargs, fr, node):
        return tuple(b.items.keys())

    def bm_dict_update(self, b, args, kwargs, fr, node):
        self.mutation_counter += 1
        for v in args:
            if isinstance(v, Box) and v.kind == 'dict' and v.items is not None:
                b.items.update(v.items)
            elif isinstance(v, dict):
                b.items.update(v)
            else:
                raise Untranslatable('dict.update with symbolic mapping')
        b.items.update(kwargs)

    # metadata dicts: contents not interpreted (see values.MetaBox)
    def bm_meta_update(self, m, args, kwargs, fr, node):
        self.meta_ops.append(('update', m.owner))
        return None

    def bm_meta_get(self, m, args, kwargs, fr, node):
        raise Untranslatable('read of metadata contents')

    # maps (symbolic dicts)
    def bm_map_get(self, m: SV, args, kwargs, fr, node):
        k = self.term(args[0], TStr())
        default = args[1] if len(args) > 1 else None
        sel = z3.Select(m.term, k)
        ty = m.ty.val
        if default is None:
            return SV(sel, TOpt(ty))
        return SV(z3.If(self.ct.opt_is_none(ty, sel), self.term(default, ty), self.ct.opt_the(ty, sel)), ty)

    # strings
    def bm_str_startswith(self, s, args, kwargs, fr, node):
        return self.wrap_bool(z3.PrefixOf(self.term(args[0], TStr()), s.term))

    def bm_str_endswith(self, s, args, kwargs, fr, node):
        return self.wrap_bool(z3.SuffixOf(self.term(args[0], TStr()), s.term))

    def bm_str_isalpha(self, s, args, kwargs, fr, node):
        f = z3.Function('py_str_isalpha', z3.StringSort(), z3.BoolSort())
        self.note_uninterpreted('py_str_isalpha')
        return SV(f(s.term), TBool())

    def bm_str_join(self, s, args, kwargs, fr, node):
        v = args[0]
        if isinstance(v, Box) and v.term is None:
            v = tuple(v.items)
        if isinstance(v, (tuple, list)):
            parts = []
            for i, x in enumerate(v):
                if i:
                    parts.append(s)
                parts.append(x)
            if not parts:
                return ''
            ts = [self.term(p, TStr()) for p in parts]
            return SV(z3.Concat(*ts) if len(ts) > 1 else ts[0], TStr())
        if isinstance(v, (SV, Box)):
            t = self.term(v)
            return SV(self.seq_join()(self.term(s, TStr()), t), TStr())
        raise Untranslatable('join')

    def seq_join(self):
        key = ('join',)
        if key not in self.aux_funs:
            srt = z3.SeqSort(z3.StringSort())
            f = z3.RecFunction('str_join', z3.StringSort(), srt, z3.StringSort())
            sep = z3.Const('sep', z3.StringSort())
            s = z3.Const('s', srt)
            n = z3.Length(s)
            recfuns.define(f, [sep, s], z3.If(n == 0, z3.StringVal(''),
                                                   z3.If(n == 1, s[0],
                                                         z3.Concat(s[0], sep, f(sep, z3.SubSeq(s, 1, n - 1))))))
            self.aux_funs[key] = f
        return self.aux_funs[key]

    # ------------------------------------------------------------------ attrs machinery (A-ATTRS)
    def model_obj__InstanceOfValidator(self, v, args, kwargs, fr, node):
        inst, attr, value = args
        ok = self.isinstance_term(value, v.type)
        if not self.ex.branch(self.bterm(ok), f'instance_of({attr.name})'):
            self.raise_exc(TypeError, f'{attr.name} must be {v.type}', fr, node)
        return None

    def model_obj__AndValidator(self, v, args, kwargs, fr, node):
        for sub in v._validators:
            self.call_value(sub, list(args), {}, fr, node)
        return None

    def model_obj__InValidator(self, v, args, kwargs, fr, node):
        inst, attr, value = args
        opts = v.options
        ok = self.contains(opts, value, fr, node)
        if not self.ex.branch(self.bterm(ok), f'in_({attr.name})'):
            self.raise_exc(ValueError, f'{attr.name} must be in {opts!r}', fr, node)
        return None

    def model_obj__NumberValidator(self, v, args, kwargs, fr, node):
        inst, attr, value = args
        import operator
        opmap = {operator.ge: ast.GtE(), operator.gt: ast.Gt(), operator.le: ast.LtE(), operator.lt: ast.Lt()}
        op = opmap[v.compare_func]
        ok = self.order(op, value, v.bound, fr, node)
        if not self.ex.branch(self.bterm(ok), f'{v.compare_op}({attr.name})'):
            self.raise_exc(ValueError, f'{attr.name} must be {v.compare_op} {v.bound}', fr, node)
        return None

    def model_obj__OptionalValidator(self, v, args, kwargs, fr, node):
        inst, attr, value = args
        isnone = self.identical(value, None)
        if self.ex.branch(self.bterm(isnone), f'optional({attr.name})'):
            return None
        if isinstance(value, SV) and isinstance(value.ty, TOpt):
            value = SV(self.ct.opt_the(value.ty.elem, value.term), value.ty.elem, oid=value.oid, fresh=value.fresh)
        return self.call_value(v.validator, [inst, attr, value], {}, fr, node)

    def model_obj__DeepIterable(self, v, args, kwargs, fr, node):
        inst, attr, value = args
        if v.iterable_validator is not None:
            self.call_value(v.iterable_validator, [inst, attr, value], {}, fr, node)
        mv = v.member_validator
        if isinstance(value, Box) and value.term is None:
            value = tuple(value.items)
        if isinstance(value, (tuple, list)):
            for x in value:
                self.call_value(mv, [inst, attr, x], {}, fr, node)
            return None
        if isinstance(value, SV) and isinstance(value.ty, TSeq):
            # member validator over a sequence of unknown length: only instance_of is modelled;
            # elements of a typed sequence are instances of their declared class family
            if type(mv).__name__ == '_InstanceOfValidator' and isinstance(value.ty.elem, TNode):
                root = self.ct.sort_root[value.ty.elem.sort]
                if issubclass(root, mv.type):
                    return None
            raise Untranslatable('deep_iterable member validator on symbolic sequence')
        raise Untranslatable('deep_iterable')

    def model_obj__VArgsWrapper(self, v, args, kwargs, fr, node):
        # calling a v_args-decorated transformer callback directly runs its base function
        return self.call_value(v.base_func, args, kwargs, fr, node)

    def model_obj_Attribute(self, v, args, kwargs, fr, node):
        raise Untranslatable('Attribute call')
