"""The symbolic interpreter: composition of the mixins + models of a few third-party functions."""
from __future__ import annotations

import ast
import inspect
from typing import Any, Dict, List, Optional

import attrs
import z3

from .classtable import (Ty, TBool, TInt, TReal, TStr, TDT, TVal, TNode, TSeq, TSet, TOpt, TEnum, TMap)
from . import classtable
from .contracts import unwrap_function
from .core import Explorer
from .values import (SV, Rec, Box, Exc, BoundMethod, VirtualMethod, Closure, FunSym, Opaque, PyRaise,
                     ReturnSig, Untranslatable, is_concrete)
from .interp_base import BaseMixin
from .interp_expr import ExprMixin, Frame, BuiltinMethod
from .interp_attr import AttrMixin
from .interp_call import CallMixin, fundef_of, assigned_names
from .interp_builtins import BuiltinsMixin
from .interp_stmt import StmtMixin
from .interp_contract import ContractMixin
from .interp_val import ValMixin


class Interp(BaseMixin, ExprMixin, AttrMixin, CallMixin, BuiltinsMixin, StmtMixin, ContractMixin, ValMixin):
    def __init__(self, ex: Explorer):
        self.ex = ex
        ex.on_prune = self._pruned
        self._pruned_seen = set()
        self.obligations: List[Any] = []
        self.writes: List[tuple] = []
        self.contracts_used = set()
        self.specs_used = set()
        self.lemmas_used = set()
        self.current_lemma = None
        self.uninterpreted = set()
        self._auto_cache = {}
        self.qpreds = QPREDS
        self.aux_funs: Dict[Any, Any] = _AUX
        self.spec_defs: Dict[str, Any] = _SPEC_DEFS
        self.depth = 0
        self.in_clause = 0
        self.fuv = None
        self.fuv_name = '?'
        self.current_contract = None
        self.effects_io: List[Any] = []
        self.search_hits: List[Any] = []
        self._loop_ord: Dict[Any, int] = {}
        self._loop_ord_by_line: Dict[Any, int] = {}
        self._con_targets: Dict[str, Any] = {}
        self.function_models: Dict[str, Any] = {}
        self.mutation_counter = 0
        self.meta_boxes = {}
        self.qual_stack = []
        self.meta_ops = []

    def _pruned(self, cond):
        """every branch the quick solver prunes must really be dead: one obligation per pruned branch"""
        import z3 as _z3
        st = self.ex.st
        key = (tuple(st.sig), cond.get_id() if cond is not None else None)
        if key in self._pruned_seen:
            return
        self._pruned_seen.add(key)
        from .core import Obligation
        hyps = list(self.ex.base_hyps) + list(st.pc) + ([cond] if cond is not None else [])
        ob = Obligation(f'{self.fuv_name}/pruned-branch-is-dead', 'pruned', 'aux', hyps, _z3.BoolVal(False),
                        tuple(st.sig), exact=True, where=str(cond)[:80] if cond is not None else '')
        self.obligations.append(ob)

    # -- third-party / library functions with models (keyed by function object)
    def call_function(self, func, args, kwargs, fr, node=None, owner=None):
        f0 = unwrap_function(func)
        m = _MODELS.get(f0)
        if m is None:
            m = FUNCTION_MODELS.get(f'{getattr(f0, "__module__", "")}.{getattr(f0, "__qualname__", "")}')
        if m is not None:
            return m(self, args, kwargs, fr, node)
        return super().call_function(func, args, kwargs, fr, node, owner)

    def inline(self, func, args, kwargs, fr, node, qual):
        fnode = fundef_of(func)
        loops = sorted((n for n in ast.walk(fnode) if isinstance(n, (ast.For, ast.While))),
                       key=lambda n: (n.lineno, n.col_offset))
        for i, n in enumerate(loops):
            self._loop_ord_by_line[(qual, n.lineno)] = i
        return super().inline(func, args, kwargs, fr, node, qual)

    def loop_ordinal(self, fr, node):
        return self._loop_ord_by_line.get((fr.qualname, node.lineno), 0)

    def bm_rec_setattr(self, rec, args, kwargs, fr, node):
        return self.object_setattr(rec, args[0], args[1], fr, node)


_AUX: Dict[Any, Any] = {}
_SPEC_DEFS: Dict[str, Any] = {}
QPREDS: Dict[int, Any] = {}            # decl id of a quantified predicate (equiv) -> builder of its definition
FUNCTION_MODELS: Dict[str, Any] = {}   # qualified name -> symbolic model of a spec-library helper


def function_model(qual):
    def deco(m):
        FUNCTION_MODELS[qual] = m
        return m
    return deco
_MODELS: Dict[Any, Any] = {}


def model(func):
    def deco(m):
        _MODELS[unwrap_function(func)] = m
        return m
    return deco


def install_models():
    import attr._make as am
    import typeguard

    @model(typeguard.check_type)
    def _m_check_type(self, args, kwargs, fr, node):
        # typeguard's run-time check is recorded as the precondition "argument has its declared class"
        return args[0]

    @model(attrs.evolve)
    def _m_evolve(self, args, kwargs, fr, node):
        inst = args[0]
        changes = dict(kwargs)
        if isinstance(inst, SV) and isinstance(inst.ty, TNode):
            cis = self.class_set(inst)
            conds = [self.bterm(self.ct.is_class(ci, inst.term)) for ci in cis]
            i = self.ex.choose(conds, [f'evolve:{ci.name}' for ci in cis])
            ci = cis[i]
            self.restrict_class(inst, [ci])
            for a in attrs.fields(ci.cls):
                if not a.init:
                    continue
                init_name = a.alias
                if init_name not in changes:
                    changes[init_name] = self.getattr_value(inst, a.name, fr, node)
            return self.construct(ci.cls, [], changes, fr, node)
        if is_concrete(inst) and is_concrete(changes):
            return self.native_call(attrs.evolve, [inst], changes, fr, node)
        if is_concrete(inst) and attrs.has(type(inst)) and type(inst) in self.ct.classes:
            for a in attrs.fields(type(inst)):
                if a.init and a.alias not in changes:
                    changes[a.alias] = getattr(inst, a.name)
            return self.construct(type(inst), [], changes, fr, node)
        raise Untranslatable('evolve')


install_models()
from . import models_specs  # noqa: E402,F401
