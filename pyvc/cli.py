import argparse
import importlib
import os
import sys


def main():
    ap = argparse.ArgumentParser()
    ap.add_argument('property')
    ap.add_argument('--tier', default=os.environ.get('VERIF_TIER', 'quick'), choices=['quick', 'thorough'])
    ap.add_argument('--replay')
    ap.add_argument('--jobs', type=int, default=None)
    ap.add_argument('--update-baseline', action='store_true')
    a = ap.parse_args()
    if a.update_baseline:
        os.environ['VERIF_UPDATE_BASELINE'] = '1'
    os.chdir('/')   # never run with /repo/src/hpl as cwd (its ast/ and types.py shadow the stdlib)
    from pyvc import runner
    if a.replay:
        sys.exit(runner.replay_file(a.replay))
    seed = int(os.environ.get('VERIF_SEED', '0') or 0)
    prop = importlib.import_module(f'props.{a.property}').PROP
    sys.exit(runner.run_property(prop, a.tier, seed, a.jobs))


if __name__ == '__main__':
    main()
