"""Symbolic models of the few spec-library helpers that use reflection natively."""
import z3

from .classtable import TNode, TSeq, TOpt
from .interp import function_model
from .values import SV, Untranslatable


@function_model('specs.tree.slots')
def _slots(self, args, kwargs, fr, node):
    e = args[0]
    if not isinstance(e, SV):
        e = self.sv(e)
    sort = e.ty.sort
    cis = self.class_set(e)
    conds = [self.bterm(self.ct.is_class(ci, e.term)) for ci in cis]
    i = self.ex.choose(conds, [f'slots:{ci.name}' for ci in cis])
    ci = cis[i]
    self.restrict_class(e, [ci])
    sty = TSeq(TNode(sort))
    if all(not (isinstance(f.ty, (TSeq, TOpt)) and isinstance(f.ty.elem, TNode) and f.ty.elem.sort == sort)
           for f in ci.fields):
        # fixed arity: a python tuple (so that specs unroll exactly like the code does)
        return tuple(SV(self.ct.field(ci, f.name, e.term), f.ty, oid=('path', f.name, str(e.oid)))
                     for f in ci.fields if isinstance(f.ty, TNode) and f.ty.sort == sort)
    parts = []
    for f in ci.fields:
        if isinstance(f.ty, TNode) and f.ty.sort == sort:
            parts.append(z3.Unit(self.ct.field(ci, f.name, e.term)))
        elif isinstance(f.ty, TSeq) and isinstance(f.ty.elem, TNode) and f.ty.elem.sort == sort:
            parts.append(self.ct.field(ci, f.name, e.term))
        elif isinstance(f.ty, TOpt) and isinstance(f.ty.elem, TNode) and f.ty.elem.sort == sort:
            o = self.ct.field(ci, f.name, e.term)
            parts.append(z3.If(self.ct.opt_is_none(f.ty.elem, o), z3.Empty(sty.z3sort()),
                               z3.Unit(self.ct.opt_the(f.ty.elem, o))))
    if not parts:
        t = z3.Empty(sty.z3sort())
    elif len(parts) == 1:
        t = parts[0]
    else:
        t = z3.Concat(*parts)
    return SV(t, sty)


@function_model('specs.tree.rev')
def _rev(self, args, kwargs, fr, node):
    r = self.reverse(args[0])
    return r


@function_model('pyvc.contracts.unfold')
def _unfold(self, args, kwargs, fr, node):
    fn = args[0]
    sp = getattr(fn, '_spec', None)
    if sp is None:
        raise Untranslatable('unfold() of something that is not a spec function')
    params, tys, rty = self.spec_sig(sp)
    f = self.declare_spec(sp)
    if not sp.defined:
        self.define_spec(sp)
    body = self.spec_defs.get(sp.name)
    if body is None:
        raise Untranslatable(f'no definition recorded for spec {sp.name}')
    ts = [self.term(a, t) for a, t in zip(args[1:], tys)]
    consts = [z3.Const(p, t.z3sort()) for p, t in zip(params, tys)]
    inst = z3.substitute(body, *zip(consts, ts))
    self.ex.assume(f(*ts) == inst)
    return True


@function_model('pyvc.contracts.the')
def _the(self, args, kwargs, fr, node):
    from .classtable import TOpt
    v = args[0]
    if isinstance(v, SV) and isinstance(v.ty, TOpt):
        isnone = self.ct.opt_is_none(v.ty.elem, v.term)
        if self.ex.branch(isnone, 'the(None)'):
            self.raise_exc(AssertionError, 'the(None)', fr, node)
        return SV(self.ct.opt_the(v.ty.elem, v.term), v.ty.elem, oid=v.oid, fresh=v.fresh)
    if v is None:
        self.raise_exc(AssertionError, 'the(None)', fr, node)
    return v


@function_model('specs.typing.with_dt')
def _with_dt(self, args, kwargs, fr, node):
    from .classtable import TDT
    e, d = args
    e = e if isinstance(e, SV) else self.sv(e)
    return SV(self.ct.with_common(e.ty.sort, e.term, 'data_type', self.term(d, TDT())), e.ty)


@function_model('specs.sem.forall_env')
def _forall_env(self, args, kwargs, fr, node):
    """forall_env(lambda rho: P) - universal quantification over the valuations of the reference semantics.
    The body is evaluated once on a fresh constant (no forking inside) and closed with ForAll."""
    from .classtable import TAbs
    from .values import Closure, NeedFork
    f = args[0]
    if not isinstance(f, Closure):
        raise Untranslatable('forall_env expects a lambda')
    ty = TAbs('Env')
    rho = z3.Const(self.ex.fresh_name('rho'), ty.z3sort())
    ex = self.ex
    npc = len(ex.st.pc)
    nobl = len(self.obligations)
    ex.nofork += 1
    try:
        r = self.call_closure(f, [SV(rho, ty)], {}, fr, node)
        body = self.bterm(self.truth_term(r))
        extra = list(ex.st.pc[npc:])
    except NeedFork:
        raise Untranslatable(f'forall_env body forks at line {getattr(node, "lineno", "?")}')
    finally:
        ex.nofork -= 1
        del ex.st.pc[npc:]
    if len(self.obligations) != nobl:
        raise Untranslatable('forall_env body with proof obligations')
    if extra:
        body = z3.Implies(z3.And(*extra), body)
    from .classtable import TBool
    return SV(z3.ForAll([rho], body), TBool())


_EQUIV = {}


def _equiv_decl(self):
    """equiv(a, b): a defined predicate  ForAll rho. ev(a, rho) == ev(b, rho).  It is kept as an atom
    (so that lemmas can have it as a quantifier-free hypothesis); its definition is added to every obligation
    that mentions an application, and a goal `equiv(a, b)` is proved at a fresh valuation."""
    from .classtable import TNode, TAbs
    from .contracts import SPECS
    from .interp import QPREDS
    if 'decl' not in _EQUIV:
        E = TNode('Expr').z3sort()
        d = z3.Function('equiv', E, E, z3.BoolSort())
        _EQUIV['decl'] = d
        ev_sp = SPECS['ev']

        def build(a, b, _self=self):
            f = _self.declare_spec(ev_sp)
            if not ev_sp.defined:
                _self.define_spec(ev_sp)
            rho = z3.Const('rho!q', TAbs('Env').z3sort())
            return z3.ForAll([rho], f(a, rho) == f(b, rho))
        QPREDS[d.get_id()] = build
    return _EQUIV['decl']


@function_model('specs.sem.equiv')
def _equiv(self, args, kwargs, fr, node):
    from .classtable import TNode, TBool
    d = _equiv_decl(self)
    a, b = [self.term(x, TNode('Expr')) for x in args]
    self.specs_used.add('ev')
    sp = __import__('pyvc.contracts', fromlist=['SPECS']).SPECS['ev']
    self.declare_spec(sp)
    if not sp.defined:
        self.define_spec(sp)
    return SV(d(a, b), TBool())


@function_model('pyvc.contracts.raw_field')
def _raw_field(self, args, kwargs, fr, node):
    x, cname, fname = args
    ci = self.ct.by_name[cname]
    f = [f_ for f_ in ci.fields if f_.name == fname][0]
    x = x if isinstance(x, SV) else self.sv(x)
    return SV(self.ct.field(ci, fname, x.term), f.ty)


def equiv_elimination(self, terms):
    """ForAll a b rho. equiv(a, b) => ev(a, rho) == ev(b, rho)  (one direction of the definition, with triggers): lets
    equivalences *derived* by lemma instances be used at the valuations in sight.  None when equiv is not in use."""
    d = _EQUIV.get('decl')
    if d is None:
        return None
    if 'elim' not in _EQUIV:
        from .classtable import TNode, TAbs
        from .contracts import SPECS
        E = TNode('Expr').z3sort()
        a, b = z3.Const('equiv!a', E), z3.Const('equiv!b', E)
        rho = z3.Const('equiv!rho', TAbs('Env').z3sort())
        f = self.declare_spec(SPECS['ev'])
        body = z3.Implies(d(a, b), f(a, rho) == f(b, rho))
        _EQUIV['elim'] = z3.ForAll([a, b, rho], body,
                                   patterns=[z3.MultiPattern(d(a, b), f(a, rho)), z3.MultiPattern(d(a, b), f(b, rho))])
    return _EQUIV['elim']
