"""Value domain of the symbolic executor."""
from __future__ import annotations

import itertools
from typing import Any, Dict, List, Optional

import z3

from .classtable import Ty, TBool, TInt, TReal, TStr, TDT, TVal, TNode, TSeq, TSet, TOpt, TEnum, TMap


class SV:
    """symbolic value: a z3 term with its type descriptor.

    oid   : identity token for `is` on objects (None = unknown identity)
    fresh : True when the object was created on this path (constructor / contract result)
    """
    __slots__ = ('term', 'ty', 'oid', 'fresh', 'opaque', 'meta')

    def __init__(self, term, ty: Ty, oid=None, fresh=False, opaque=False):
        self.term = term
        self.ty = ty
        self.oid = oid
        self.fresh = fresh
        self.opaque = opaque
        self.meta = None

    def __repr__(self):
        s = str(self.term).replace('\n', ' ')
        return f'SV<{self.ty!r}>({s[:120]})'


class Rec:
    """object under construction (inside __init__), fields written by _setattr."""

    def __init__(self, ci, oid):
        self.ci = ci
        self.fields: Dict[str, Any] = {}
        self.oid = oid
        self.done = False

    def __repr__(self):
        return f'Rec<{self.ci.name}>'


class Box:
    """mutable local container (list / set / dict) with reference semantics.

    items : Python list (list), list of values (set, insertion-ordered, concrete & distinct) or dict
    term  : z3 Seq / Set term when the content is symbolic (then items is None)
    """

    def __init__(self, kind, items=None, term=None, elem: Optional[Ty] = None):
        self.kind = kind
        self.items = items
        self.term = term
        self.elem = elem
        self.from_seq = None      # z3 sequence this set was built from (set(seq)), if any

    def is_sym(self):
        return self.term is not None

    def __repr__(self):
        return f'Box<{self.kind}>({self.items if self.term is None else self.term})'


class MetaBox:
    """the metadata dict of an AST object.  metadata is declared eq=False: it is outside the value model, so
    the prover only tracks the *identity* of these dicts; reads and updates of their contents are not
    interpreted (checked natively in the bounded tier instead)."""

    def __init__(self, owner=None):
        self.owner = owner


class Exc:
    """an exception value"""

    def __init__(self, cls, args=(), cause=None):
        self.cls = cls
        self.args = args
        self.cause = cause

    def __repr__(self):
        return f'Exc<{self.cls.__name__}>'


class BoundMethod:
    def __init__(self, func, self_val, owner=None):
        self.func = func
        self.self_val = self_val
        self.owner = owner

    def __repr__(self):
        return f'BoundMethod({getattr(self.func, "__qualname__", self.func)})'


class VirtualMethod:
    """method of a receiver whose class is not fixed: resolved through a virtual contract."""

    def __init__(self, name, recv, contract):
        self.name = name
        self.recv = recv
        self.contract = contract


class Closure:
    """function value created by a `lambda` or nested def inside executed code."""

    def __init__(self, node, env, globs, name='<lambda>'):
        self.node = node
        self.env = env
        self.globs = globs
        self.name = name


class FunSym:
    """function-valued parameter under verification: an uninterpreted first-order symbol."""

    def __init__(self, name, decl, arg_tys, res_ty):
        self.name = name
        self.decl = decl
        self.arg_tys = arg_tys
        self.res_ty = res_ty


class Opaque:
    """a value the model does not interpret (exception message text, repr strings)."""

    def __init__(self, what=''):
        self.what = what

    def __repr__(self):
        return f'Opaque({self.what})'


# control-flow signals -------------------------------------------------------

class PyRaise(Exception):
    def __init__(self, exc: Exc):
        self.exc = exc


class ReturnSig(Exception):
    def __init__(self, value):
        self.value = value


class BreakSig(Exception):
    pass


class ContinueSig(Exception):
    pass


class Infeasible(Exception):
    """the current path has an unsatisfiable path condition"""


class PathCut(Exception):
    """the current path ends here by construction (e.g. after re-establishing a loop invariant)"""


class NeedFork(Exception):
    pass


class Restart(Exception):
    pass


class Untranslatable(Exception):
    """construct outside the supported subset: the function is reported, never silently skipped"""


def is_concrete(v) -> bool:
    if isinstance(v, (SV, Rec, Box, Closure, FunSym, VirtualMethod)):
        return False
    if isinstance(v, BoundMethod):
        return is_concrete(v.self_val)
    if isinstance(v, (tuple, list)):
        return all(is_concrete(x) for x in v)
    if isinstance(v, dict):
        return all(is_concrete(x) for x in v.values())
    if isinstance(v, Exc):
        return False
    return True
