"""Native (CPython) evaluation of contracts on the real code: replay of counter-models and the
bounded stand-in.  The clause functions of a contract and the spec functions they call are ordinary
Python; here they run on real objects and the real function from /repo's working tree."""
from __future__ import annotations

import builtins
import copy
import inspect
import traceback
from typing import Any, Dict, List, Optional

import z3

from . import classtable
from .classtable import Ty, TNode, TSeq, TSet, TOpt
from .contracts import CONTRACTS, Contract, resolve_qualname, unwrap_function


def call_clause(clause, env):
    params = list(inspect.signature(clause.fn).parameters)
    return clause.fn(*[env[p] for p in params])


def exc_class(name, clause):
    g = clause.fn.__globals__
    if name in g:
        return g[name]
    if hasattr(builtins, name):
        return getattr(builtins, name)
    ct = classtable.get_table()
    for mod in ct.modules.values():
        if hasattr(mod, name):
            return getattr(mod, name)
    raise KeyError(name)


def snapshot(v):
    """deep structural snapshot (including stored types and metadata) used for frame checks"""
    import attrs
    if attrs.has(type(v)):
        return (type(v).__name__, tuple((a.name, snapshot(getattr(v, a.name))) for a in attrs.fields(type(v))))
    if isinstance(v, (tuple, list)):
        return tuple(snapshot(x) for x in v)
    if isinstance(v, dict):
        return tuple(sorted((k, snapshot(x)) for k, x in v.items()))
    if isinstance(v, (set, frozenset)):
        return frozenset(snapshot(x) for x in v)
    return v


def native_check(qualname: str, env: Dict[str, Any], self_class=None) -> Dict[str, Any]:
    """Run the real function on concrete inputs and evaluate its contract natively.

    returns {'valid_input': bool, 'violated': [clause names], 'outcome': str, ...}"""
    con: Contract = CONTRACTS[qualname]
    mod, owner, attr, raw = resolve_qualname(qualname)
    out: Dict[str, Any] = {'qualname': qualname, 'violated': [], 'valid_input': True}
    try:
        for c in con.requires:
            if not call_clause(c, env):
                out['valid_input'] = False
                out['why_invalid'] = c.name
                return out
    except Exception as e:
        out['valid_input'] = False
        out['why_invalid'] = f'requires raised {type(e).__name__}: {e}'
        return out
    func = unwrap_function(raw)
    params = list(inspect.signature(func).parameters)
    is_ctor = attr == '__init__'
    before = snapshot([env.get(p) for p in params if p in env])
    result = None
    raised = None
    try:
        if is_ctor:
            # None stands for "keyword not given" (attrs NOTHING) in constructor contracts
            args = {p: env[p] for p in params[1:] if p in env and not (p == 'data_type' and env[p] is None)}
            result = owner(**args)
        elif isinstance(raw, property):
            result = getattr(env[params[0]], attr)
        elif isinstance(raw, staticmethod) or owner is None:
            result = getattr(owner, attr)(**{p: env[p] for p in params if p in env}) if owner is not None \
                else getattr(mod, attr)(**{p: env[p] for p in params if p in env})
        elif isinstance(raw, classmethod):
            result = getattr(env.get('cls', owner), attr)(**{p: env[p] for p in params[1:] if p in env})
        else:
            recv = env[params[0]]
            m = getattr(recv, attr)
            sig = inspect.signature(func)
            pos, kw = [], {}
            for p in params[1:]:
                if p not in env:
                    continue
                if sig.parameters[p].kind == inspect.Parameter.KEYWORD_ONLY:
                    kw[p] = env[p]
                else:
                    pos.append(env[p])
            result = m(*pos, **kw)
        if inspect.isgenerator(result):
            result = list(result)
    except Exception as e:      # the real function raised
        raised = e
    out['outcome'] = f'raised {type(raised).__name__}: {raised}' if raised is not None else f'returned {result!r}'[:400]
    after = snapshot([env.get(p) for p in params if p in env])
    if before != after and not con.narrows:
        out['violated'].append('frame: an argument was modified')
    try:
        if raised is not None:
            matched = None
            for ename, c in con.raises.items():
                if isinstance(raised, exc_class(ename, c)):
                    matched = (ename, c)
                    break
            if matched is None:
                out['violated'].append(f'unexpected exception {type(raised).__name__}')
            else:
                ename, c = matched
                mode = con.raise_mode.get(ename, 'iff')
                if mode in ('iff', 'only_if') and not call_clause(c, env):
                    out['violated'].append(f'{c.name}: raised although the condition is false')
        else:
            for ename, c in con.raises.items():
                mode = con.raise_mode.get(ename, 'iff')
                if mode in ('iff', 'if') and call_clause(c, env):
                    out['violated'].append(f'{c.name}: returned although the condition holds')
            env2 = dict(env)
            env2['result'] = result
            if con.returns is not None:
                expect = call_clause(con.returns, env)
                if not values_equal(result, expect):
                    out['violated'].append(f'returns: expected {expect!r}'[:300])
            for c in con.ensures:
                if not call_clause(c, env2):
                    out['violated'].append(c.name)
            for c in con.result_is:
                pname = c.name[len('result_is_'):]
                if call_clause(c, env) and result is not env[pname]:
                    out['violated'].append(c.name)
    except Exception as e:
        out['clause_error'] = f'{type(e).__name__}: {e}\n{traceback.format_exc()[-800:]}'
    return out


def values_equal(a, b):
    if isinstance(a, (list, tuple)) and isinstance(b, (list, tuple)):
        return len(a) == len(b) and all(values_equal(x, y) for x, y in zip(a, b))
    if isinstance(a, (set, frozenset)) and isinstance(b, (set, frozenset)):
        return set(a) == set(b)
    return a == b


def concretize(inputs: Dict[str, Any], input_tys: Dict[str, Ty], model) -> Dict[str, Any]:
    """z3 model -> real Python objects for the inputs of the function (real constructors first)."""
    ct = classtable.get_table()
    env = {}
    notes = []
    for p, const in inputs.items():
        ty = input_tys[p]
        if isinstance(const, tuple) and const[0] == 'list':
            items = []
            for c_, t_ in zip(const[1], ty[1]):
                if t_ is None:
                    items.append(c_)          # concrete element of the shape
                    continue
                v_ = model.eval(c_, model_completion=True)
                try:
                    items.append(ct.unlift(v_, t_, raw=False))
                except Exception:
                    items.append(ct.unlift(v_, t_, raw=True))
            env[p] = items
            continue
        val = model.eval(const, model_completion=True)
        try:
            obj = ct.unlift(val, ty, raw=False)
            # the constructors may have normalised the object: it must still denote the model value
            if isinstance(ty, TNode) and not ct.lift(obj, ty).eq(z3.simplify(val)):
                obj = ct.unlift(val, ty, raw=True)
                notes.append(f'{p}: constructors normalise this value; built field by field')
        except Exception as e:
            try:
                obj = ct.unlift(val, ty, raw=True)
                notes.append(f'{p}: not constructible through the API ({type(e).__name__}); built field by field')
            except Exception as e2:
                raise ValueError(f'cannot concretise {p}: {e2}')
        env[p] = obj
    return env, notes
