"""Calls: repo functions (inlined or by contract), attrs constructors, builtins, exceptions."""
from __future__ import annotations

import ast
import enum
import inspect
import linecache
import textwrap
import types
from typing import Any, Dict, List, Optional

import attrs
import z3

from .classtable import (Ty, TBool, TInt, TReal, TStr, TDT, TVal, TNode, TSeq, TSet, TOpt, TEnum, TMap)
from .contracts import CONTRACTS, SPECS, unwrap_function, parse_ty
from .values import (SV, Rec, Box, Exc, BoundMethod, VirtualMethod, Closure, FunSym, Opaque, PyRaise,
                     ReturnSig, Untranslatable, is_concrete, PathCut)
from .interp_expr import BuiltinMethod, Frame

_FUNDEF_CACHE: Dict[Any, Any] = {}
MAX_INLINE_DEPTH = 40


def fundef_of(func):
    """(FunctionDef/Lambda ast, source file, first line) of a live function object"""
    key = func.__code__
    if key in _FUNDEF_CACHE:
        return _FUNDEF_CACHE[key]
    fname = func.__code__.co_filename
    if fname.startswith('<attrs generated'):
        src = ''.join(linecache.getlines(fname))
        tree = ast.parse(src)
        node = next(n for n in tree.body if isinstance(n, ast.FunctionDef) and n.name == func.__name__)
    else:
        src = textwrap.dedent(inspect.getsource(func))
        tree = ast.parse(src)
        node = None
        for n in ast.walk(tree):
            if isinstance(n, (ast.FunctionDef,)) and n.name == func.__name__:
                node = n
                break
        if node is None:
            raise Untranslatable(f'no source for {func}')
    _FUNDEF_CACHE[key] = node
    return node


def assigned_names(node) -> set:
    out = set()
    for n in ast.walk(node):
        if isinstance(n, ast.Name) and isinstance(n.ctx, ast.Store):
            out.add(n.id)
    return out


def is_generator(node) -> bool:
    for n in ast.walk(node):
        if isinstance(n, (ast.Yield, ast.YieldFrom)):
            return True
    return False


class CallMixin:
    # ------------------------------------------------------------------ exceptions
    def raise_exc(self, cls, msg, fr=None, node=None):
        raise PyRaise(Exc(cls, (msg,)))

    # ------------------------------------------------------------------ call expression
    def eval_call(self, node: ast.Call, fr: Frame):
        f = self.eval(node.func, fr)
        args = []
        is_exc = inspect.isclass(f) and issubclass(f, BaseException)
        for a in node.args:
            if is_exc and isinstance(a, ast.JoinedStr):
                # text of an exception message: kept opaque, not rendered (stated in DESIGN 2.1)
                args.append(Opaque('exception message'))
                continue
            if isinstance(a, ast.Starred):
                args.extend(self.iter_concrete(self.eval(a.value, fr)))
            else:
                args.append(self.eval(a, fr))
        kwargs = {}
        for k in node.keywords:
            if k.arg is None:
                d = self.eval(k.value, fr)
                if isinstance(d, Box) and d.kind == 'dict' and d.items is not None:
                    kwargs.update(d.items)
                elif isinstance(d, dict):
                    kwargs.update(d)
                else:
                    raise Untranslatable('** of symbolic mapping')
            else:
                kwargs[k.arg] = self.eval(k.value, fr)
        return self.call_value(f, args, kwargs, fr, node)

    def iter_concrete(self, v):
        """elements of a value whose length is known"""
        if isinstance(v, Box):
            if v.term is None:
                return list(v.items) if v.kind != 'dict' else list(v.items.keys())
            raise Untranslatable('unpacking a sequence of unknown length')
        if isinstance(v, SV):
            raise Untranslatable('unpacking a sequence of unknown length')
        return list(v)

    def call_value(self, f, args, kwargs, fr, node=None):
        if isinstance(f, BoundMethod):
            return self.call_function(f.func, [f.self_val] + list(args), kwargs, fr, node, owner=f.owner)
        if isinstance(f, VirtualMethod):
            return self.call_contract(f.contract, [f.recv] + list(args), kwargs, fr, node)
        if isinstance(f, BuiltinMethod):
            return self.call_builtin_method(f, args, kwargs, fr, node)
        if isinstance(f, Closure):
            return self.call_closure(f, args, kwargs, fr, node)
        if isinstance(f, FunSym):
            return self.call_funsym(f, args, fr, node)
        if isinstance(f, types.MethodType):
            func = f.__func__
            recv = f.__self__
            if getattr(func, '__module__', '').startswith('hpl') or func.__module__ == 'attr._make':
                return self.call_function(unwrap_function(func), [recv] + list(args), kwargs, fr, node,
                                          owner=recv if inspect.isclass(recv) else type(recv))
            if is_concrete(args) and is_concrete(kwargs):
                return self.native_call(f, args, kwargs, fr, node)
            m = getattr(self, 'model_method_' + func.__name__, None)
            if m is not None:
                return m(recv, args, kwargs, fr, node)
            raise Untranslatable(f'method {func.__qualname__} with symbolic arguments')
        if inspect.isclass(f):
            return self.call_class(f, args, kwargs, fr, node)
        if inspect.isfunction(f):
            return self.call_function(f, args, kwargs, fr, node)
        if inspect.isbuiltin(f) or isinstance(f, (types.BuiltinFunctionType, types.MethodWrapperType,
                                                  types.MethodDescriptorType, types.WrapperDescriptorType)):
            return self.call_builtin(f, args, kwargs, fr, node)
        # attrs stock validators and other callable objects
        tn = type(f).__name__
        m = getattr(self, 'model_obj_' + tn, None)
        if m is not None:
            return m(f, args, kwargs, fr, node)
        if callable(f) and is_concrete(args) and is_concrete(kwargs):
            return self.native_call(f, args, kwargs, fr, node)
        raise Untranslatable(f'call of {f!r}')

    def native_call(self, f, args, kwargs, fr, node):
        try:
            return f(*args, **kwargs)
        except Exception as e:
            raise PyRaise(Exc(type(e), (str(e),)))

    # ------------------------------------------------------------------ classes
    def call_class(self, cls, args, kwargs, fr, node):
        if issubclass(cls, BaseException):
            return Exc(cls, tuple(args))
        if attrs.has(cls) and cls in self.ct.classes:
            if is_concrete(args) and is_concrete(kwargs) and not self.force_symbolic_ctor:
                return self.native_call(cls, args, kwargs, fr, node)
            return self.construct(cls, args, kwargs, fr, node)
        if issubclass(cls, enum.Enum):
            # Enum(value) lookup
            if len(args) == 1 and isinstance(args[0], SV):
                v = args[0]
                members = list(cls.__members__.values())
                conds = [self.bterm(self.equal(v, m.value)) for m in members]
                conds.append(z3.And(*[z3.Not(c) for c in conds]) if conds else z3.BoolVal(True))
                i = self.ex.choose(conds, [f'enum:{m.name}' for m in members] + ['enum:none'])
                if i == len(members):
                    self.raise_exc(ValueError, 'not a valid enum value', fr, node)
                return members[i]
            return self.native_call(cls, args, kwargs, fr, node)
        m = getattr(self, 'model_class_' + cls.__name__, None)
        if m is not None:
            return m(cls, args, kwargs, fr, node)
        if is_concrete(args) and is_concrete(kwargs):
            return self.native_call(cls, args, kwargs, fr, node)
        raise Untranslatable(f'construction of {cls.__name__} with symbolic arguments')

    force_symbolic_ctor = False

    def construct(self, cls, args, kwargs, fr, node):
        ci = self.ct.classes[cls]
        con = CONTRACTS.get(f'{cls.__module__}.{cls.__qualname__}.__init__')
        if con is not None and self.current_contract is not con:
            return self.call_contract(con, list(args), kwargs, fr, node)
        init = cls.__init__
        rec = Rec(ci, self.new_oid(ci.name))
        self.call_function(init, [rec] + list(args), kwargs, fr, node, owner=cls)
        return self.finish_rec(rec)

    def finish_rec(self, rec: Rec) -> SV:
        ci = rec.ci
        vals = {}
        for f in ci.fields:
            if f.name not in rec.fields:
                raise Untranslatable(f'field {f.name} of {ci.name} not initialised')
            vals[f.name] = self.term(rec.fields[f.name], f.ty)
        rec.done = True
        sv = SV(self.ct.ctor(ci, vals), TNode(ci.sort), oid=rec.oid, fresh=True)
        rec.result = sv
        return sv

    # ------------------------------------------------------------------ repo functions
    def bind_args(self, fnode, func, args, kwargs, fr, node):
        a = fnode.args
        params = [p.arg for p in a.posonlyargs + a.args]
        env = {}
        args = list(args)
        if len(args) > len(params) and a.vararg is None:
            self.raise_exc(TypeError, f'{getattr(func, "__name__", "?")}() takes {len(params)} positional '
                                      f'arguments but {len(args)} were given', fr, node)
        for p, v in zip(params, args):
            env[p] = v
        if a.vararg is not None:
            env[a.vararg.arg] = tuple(args[len(params):])
        kw = dict(kwargs)
        for p in params[len(args):]:
            if p in kw:
                env[p] = kw.pop(p)
        kwonly = [p.arg for p in a.kwonlyargs]
        for p in kwonly:
            if p in kw:
                env[p] = kw.pop(p)
        if kw:
            if a.kwarg is not None:
                env[a.kwarg.arg] = Box('dict', items=kw)
            else:
                self.raise_exc(TypeError, f'unexpected keyword argument {next(iter(kw))!r}', fr, node)
        elif a.kwarg is not None:
            env[a.kwarg.arg] = Box('dict', items={})
        # defaults: take the already evaluated default objects of the live function
        defaults = func.__defaults__ or () if func is not None else ()
        if defaults:
            for p, d in zip(params[len(params) - len(defaults):], defaults):
                if p not in env:
                    env[p] = d
        kwdefaults = (func.__kwdefaults__ or {}) if func is not None else {}
        for p in kwonly:
            if p not in env and p in kwdefaults:
                env[p] = kwdefaults[p]
        for p in params + kwonly:
            if p not in env:
                self.raise_exc(TypeError, f'missing argument {p!r}', fr, node)
        return env

    def call_function(self, func, args, kwargs, fr, node=None, owner=None):
        func = unwrap_function(func)
        mod = getattr(func, '__module__', '') or ''
        qual = f'{mod}.{func.__qualname__}'
        # spec function?
        sp = getattr(func, '_spec', None)
        if sp is not None:
            return self.call_spec(sp, args, kwargs, fr, node)
        lm = getattr(func, '_lemma', None)
        if lm is not None:
            # instance of a separately proved lemma used as a hint: assumed here, dependency recorded;
            # only lemmas declared earlier may be used (no circular reasoning)
            cur = getattr(self, 'current_lemma', None)
            if cur is not None and lm.index >= cur.index:
                raise Untranslatable(f'lemma {cur.name} may not use the later lemma {lm.name}')
            params = [a.arg for a in lm.node.args.args]
            t = self.eval_clause(lm.node, lm.globs, dict(zip(params, args)))
            self.ex.assume(self.bterm(self.truth_term(t)))
            self.lemmas_used.add(lm.name)
            return True
        model = self.function_models.get(qual) or self.function_models.get(func.__name__ if mod in
                                                                           ('specs.lib', 'lib') else None)
        if model is not None:
            return model(self, args, kwargs, fr, node)
        if not (mod.startswith('hpl') or func.__code__.co_filename.startswith('<attrs generated')
                or mod.startswith('specs') or mod.startswith('contracts')):
            m = self.function_models.get(func.__name__ + '@' + mod)
            if m is not None:
                return m(self, args, kwargs, fr, node)
            if is_concrete(args) and is_concrete(kwargs):
                return self.native_call(func, args, kwargs, fr, node)
            raise Untranslatable(f'external function {qual} with symbolic arguments')
        # contract?
        con = CONTRACTS.get(qual)
        if con is None and owner is not None and inspect.isclass(owner):
            con = self.find_contract(owner, func.__name__)
        if con is not None and con is not self.current_contract_entry(func):
            recv = args[0] if args else None
            if isinstance(recv, Rec) and not recv.done and self.contract_mentions_receiver(con):
                pass        # an object under construction is not a value yet: run the real body
            elif not (con.inline_when_known and self.receiver_known(recv)):
                return self.call_contract(con, list(args), kwargs, fr, node)
        if (is_concrete(args) and is_concrete(kwargs) and not func.__code__.co_filename.startswith('<attrs')
                and mod.startswith('hpl')):
            return self.native_call(func, args, kwargs, fr, node)
        return self.inline(func, args, kwargs, fr, node, qual)

    def contract_mentions_receiver(self, con):
        func, fnode, is_ctor, owner, raw = self.contract_target(con)
        if not fnode.args.args:
            return False
        first = fnode.args.args[0].arg
        clauses = list(con.requires) + list(con.ensures) + list(con.raises.values()) + list(con.result_is)
        if con.returns is not None:
            clauses.append(con.returns)
        return any(first in [a.arg for a in c.node.args.args] for c in clauses)

    def receiver_known(self, recv):
        if isinstance(recv, Rec):
            return True
        if isinstance(recv, SV) and isinstance(recv.ty, TNode):
            if len(self.class_set(recv)) == 1:
                return True
            allc = self.ct.sort_classes[recv.ty.sort]
            live = [ci for ci in allc if not z3.is_false(z3.simplify(self.ct.is_class(ci, recv.term)))]
            if len(live) == 1:
                self.restrict_class(recv, live)
                return True
            # decided by the path condition?
            cis = self.class_set(recv)
            feas = [ci for ci in cis if self.ex.feasible(self.ct.is_class(ci, recv.term))]
            if len(feas) == 1:
                self.restrict_class(recv, feas)
                return True
            return False
        return True

    def single_class(self, recv: SV):
        cis = self.ct.sort_classes[recv.ty.sort]
        live = [ci for ci in cis if not z3.is_false(z3.simplify(self.ct.is_class(ci, recv.term)))]
        return len(live) == 1

    def current_contract_entry(self, func):
        """the contract of the function under verification is not used for its own top-level body"""
        if self.fuv is not None and func is self.fuv and self.depth == 0:
            return self.current_contract
        return None

    def inline(self, func, args, kwargs, fr, node, qual):
        if self.depth > MAX_INLINE_DEPTH:
            raise Untranslatable(f'inlining depth exceeded at {qual}')
        fnode = fundef_of(func)
        env = self.bind_args(fnode, func, args, kwargs, fr, node)
        closure = {}
        if func.__closure__:
            for name, cell in zip(func.__code__.co_freevars, func.__closure__):
                try:
                    closure[name] = cell.cell_contents
                except ValueError:
                    pass
        nfr = Frame(env, func.__globals__, qual, closure)
        nfr.assigned_names = assigned_names(fnode)
        gen = is_generator(fnode)
        if gen:
            nfr.yielded = Box('list', items=[])
        self.depth += 1
        self.qual_stack.append(qual)
        try:
            try:
                self.exec_block(fnode.body, nfr)
                ret = None
            except ReturnSig as r:
                ret = r.value
            except PyRaise as e:
                if getattr(e.exc, 'origin', None) is None:
                    e.exc.origin = list(self.qual_stack)
                raise
        finally:
            self.depth -= 1
            self.qual_stack.pop()
        if gen:
            return nfr.yielded
        return ret

    def call_closure(self, f: Closure, args, kwargs, fr, node):
        if isinstance(f.node, ast.Lambda):
            env = dict(f.env)
            env.update(self.bind_args(f.node, None, args, kwargs, fr, node))
            nfr = Frame(env, f.globs, '<lambda>')
            nfr.assigned_names = set()
            return self.eval(f.node.body, nfr)
        raise Untranslatable('nested def')

    def call_funsym(self, f: FunSym, args, fr, node):
        ts = [self.term(a, ty) for a, ty in zip(args, f.arg_tys)]
        return SV(f.decl(*ts), f.res_ty, oid=None)
