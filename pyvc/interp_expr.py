"""Expression evaluation."""
from __future__ import annotations

import ast
import builtins
import enum
import inspect
from typing import Any, Dict, List, Optional

import z3

from .classtable import (Ty, TBool, TInt, TReal, TStr, TDT, TVal, TNode, TSeq, TSet, TOpt, TEnum, TMap,
                         DT_BITS)
from .values import (SV, Rec, Box, Exc, BoundMethod, VirtualMethod, Closure, FunSym, Opaque, PyRaise,
                     ReturnSig, Infeasible, NeedFork, Restart, Untranslatable, is_concrete)


class Frame:
    def __init__(self, env, globs, qualname='<top>', closure=None):
        self.env = env
        self.globs = globs
        self.qualname = qualname
        self.closure = closure or {}
        self.loop_index = 0
        self.yielded: Optional[Box] = None


class BuiltinMethod:
    """method of a modelled builtin type bound to a symbolic receiver"""

    def __init__(self, kind, recv):
        self.kind = kind
        self.recv = recv

    def __repr__(self):
        return f'BuiltinMethod({self.kind})'


class ExprMixin:
    # ------------------------------------------------------------------ names
    def lookup(self, name, fr: Frame):
        if name in fr.env:
            return fr.env[name]
        if name in fr.closure:
            return fr.closure[name]
        if name in fr.globs:
            return fr.globs[name]
        if hasattr(builtins, name):
            return getattr(builtins, name)
        raise Untranslatable(f'unbound name {name} in {fr.qualname}')

    # ------------------------------------------------------------------ eval
    def eval(self, node, fr: Frame):
        m = getattr(self, 'eval_' + type(node).__name__, None)
        if m is None:
            raise Untranslatable(f'expression {type(node).__name__} in {fr.qualname}')
        return m(node, fr)

    def eval_Constant(self, node, fr):
        return node.value

    def eval_Name(self, node, fr):
        if node.id not in fr.env and node.id in getattr(fr, 'maybe_unbound', ()):
            pass
        try:
            return self.lookup(node.id, fr)
        except Untranslatable:
            if node.id in fr.assigned_names:
                # local variable read before assignment on this path
                self.raise_exc(UnboundLocalError, f'local variable {node.id!r}', fr, node)
            raise

    def eval_Tuple(self, node, fr):
        out = []
        for e in node.elts:
            if isinstance(e, ast.Starred):
                out.extend(self.iter_concrete(self.eval(e.value, fr)))
            else:
                out.append(self.eval(e, fr))
        return tuple(out)

    def eval_List(self, node, fr):
        return Box('list', items=list(self.eval_Tuple(node, fr)))

    def eval_Set(self, node, fr):
        items = []
        for e in node.elts:
            v = self.eval(e, fr)
            items.append(v)
        b = Box('set', items=[])
        for v in items:
            self.set_add(b, v)
        b.display = list(items)       # the displayed elements {x, y}: lets unions become element insertions
        return b

    def eval_Dict(self, node, fr):
        d = {}
        for k, v in zip(node.keys, node.values):
            kk = self.eval(k, fr)
            if not is_concrete(kk):
                raise Untranslatable('dict display with symbolic key')
            d[kk] = self.eval(v, fr)
        return Box('dict', items=d)

    def eval_Lambda(self, node, fr):
        return Closure(node, dict(fr.env), fr.globs)

    def eval_IfExp(self, node, fr):
        t = self.eval(node.test, fr)
        tt = self.truth_term(t)
        if isinstance(tt, bool):
            return self.eval(node.body if tt else node.orelse, fr)
        # try to merge without forking when both arms are pure scalar values
        key = ('ifexp', id(node))
        if key not in self.ex.must_fork:
            merged = self.try_merge(node, fr, tt)
            if merged is not None:
                return merged
        if self.ex.branch(tt, 'ifexp'):
            return self.eval(node.body, fr)
        return self.eval(node.orelse, fr)

    def try_merge(self, node, fr, tt):
        a = self.pure_eval(node.body, fr, tt)
        if a is None:
            return None
        b = self.pure_eval(node.orelse, fr, z3.Not(tt))
        if b is None:
            return None
        a, b = a[0], b[0]
        if is_concrete(a) and is_concrete(b) and type(a) is type(b) and a == b:
            return a
        try:
            ty = self.ty_of(a) or self.ty_of(b)
            if isinstance(a, SV) and isinstance(b, SV) and a.ty != b.ty:
                return None
            if ty is None or isinstance(a, (Box, Rec)) or isinstance(b, (Box, Rec)):
                return None
            if isinstance(ty, TNode):
                return None   # keep object identities apart: fork instead
            ta, tb = self.term(a, ty), self.term(b, ty)
        except (Untranslatable, TypeError, AssertionError, KeyError):
            return None
        return SV(z3.If(tt, ta, tb), ty)

    def pure_eval(self, node, fr, assumption):
        """evaluate node under an extra assumption without forking; None if that is impossible"""
        ex = self.ex
        pass
        npc = len(ex.st.pc)
        neff = len(ex.st.effects)
        nobl = len(self.obligations)
        ex.nofork += 1
        snap = self.mutation_counter
        facts = dict(ex.st.cls_facts)
        try:
            ex.st.pc.append(assumption)
            v = self.eval(node, fr)
            if len(ex.st.effects) != neff or self.mutation_counter != snap:
                raise NeedFork()
            extra = ex.st.pc[npc + 1:]
            return (v, extra)
        except (NeedFork, PyRaise, Infeasible):
            del self.obligations[nobl:]
            return None
        finally:
            ex.nofork -= 1
            del ex.st.pc[npc:]
            ex.st.cls_facts = facts      # class knowledge gained under the assumption ends with it

    def eval_BoolOp(self, node, fr):
        is_and = isinstance(node.op, ast.And)
        vals = node.values
        cur = self.eval(vals[0], fr)
        for nxt in vals[1:]:
            ct = self.truth_term(cur)
            if isinstance(ct, bool):
                if ct != is_and:
                    return cur          # short circuit
                cur = self.eval(nxt, fr)
                continue
            guard = ct if is_and else z3.Not(ct)
            key = ('boolop', id(nxt))
            merged = None
            if key not in self.ex.must_fork:
                r = self.pure_eval(nxt, fr, guard)
                if r is not None:
                    rv, extra = r
                    rt = None
                    try:
                        rt = self.truth_term(rv)
                    except Untranslatable:
                        rt = None
                    # merging is only valid for boolean-valued operands (value == truthiness)
                    cur_is_bool = isinstance(cur, SV) and isinstance(cur.ty, TBool)
                    rv_is_bool = isinstance(rv, bool) or (isinstance(rv, SV) and isinstance(rv.ty, TBool))
                    if rt is not None and cur_is_bool and rv_is_bool:
                        for f in extra:
                            self.ex.assume(z3.Implies(guard, f))
                        rtt = self.bterm(rt)
                        merged = SV(z3.And(ct, rtt) if is_and else z3.Or(ct, rtt), TBool())
            if merged is not None:
                cur = merged
                continue
            if self.ex.branch(ct, 'and' if is_and else 'or') != is_and:
                return cur
            cur = self.eval(nxt, fr)
        return cur

    def eval_UnaryOp(self, node, fr):
        v = self.eval(node.operand, fr)
        if isinstance(node.op, ast.Not):
            return self.wrap_bool(self.neg(self.truth_term(v)))
        if isinstance(node.op, ast.USub):
            if isinstance(v, SV):
                if isinstance(v.ty, (TInt, TReal)):
                    return SV(-v.term, v.ty)
                if isinstance(v.ty, TVal):
                    return self.val_arith('neg', v, None, fr, node)
                raise Untranslatable(f'unary minus on {v.ty!r}')
            return -v
        raise Untranslatable(f'unary op {type(node.op).__name__}')

    def wrap_bool(self, r):
        if isinstance(r, bool):
            return r
        rs = z3.simplify(r)
        if z3.is_true(rs):
            return True
        if z3.is_false(rs):
            return False
        return SV(r, TBool())

    def eval_Compare(self, node, fr):
        left = self.eval(node.left, fr)
        results = []
        for op, rn in zip(node.ops, node.comparators):
            right = self.eval(rn, fr)
            results.append(self.compare(op, left, right, fr, node))
            left = right
        if len(results) == 1:
            return self.wrap_bool(results[0])
        return self.wrap_bool(self.conj(results))

    def compare(self, op, a, b, fr, node):
        if isinstance(op, ast.Is):
            return self.identical(a, b)
        if isinstance(op, ast.IsNot):
            return self.neg(self.identical(a, b))
        if isinstance(op, ast.Eq):
            return self.equal(a, b)
        if isinstance(op, ast.NotEq):
            return self.neg(self.equal(a, b))
        if isinstance(op, ast.In):
            return self.contains(b, a, fr, node)
        if isinstance(op, ast.NotIn):
            return self.neg(self.contains(b, a, fr, node))
        if isinstance(op, (ast.Lt, ast.LtE, ast.Gt, ast.GtE)):
            return self.order(op, a, b, fr, node)
        raise Untranslatable(f'comparison {type(op).__name__}')

    def order(self, op, a, b, fr, node):
        if isinstance(a, SV) and isinstance(a.ty, TOpt):
            a = self.coerce(a, a.ty.elem)
        if isinstance(b, SV) and isinstance(b.ty, TOpt):
            b = self.coerce(b, b.ty.elem)
        if not isinstance(a, SV) and not isinstance(b, SV):
            import operator
            f = {ast.Lt: operator.lt, ast.LtE: operator.le, ast.Gt: operator.gt, ast.GtE: operator.ge}[type(op)]
            return f(a, b)
        tya = a.ty if isinstance(a, SV) else None
        tyb = b.ty if isinstance(b, SV) else None
        if isinstance(tya, TVal) or isinstance(tyb, TVal):
            return self.val_order(op, a, b, fr, node)
        if isinstance(b, Box) and b.kind == 'set' and b.from_seq is not None and isinstance(op, ast.LtE):
            # A <= set(seq):  every member of A occurs in seq  (no lambda-defined set needed)
            ety = b.elem
            ta = self.term(a, TSet(ety))
            x = z3.Const('member!m', ety.z3sort())
            return z3.ForAll([x], z3.Implies(z3.IsMember(x, ta), z3.Contains(b.from_seq, z3.Unit(x))),
                             patterns=[z3.IsMember(x, ta)])
        if isinstance(b, Box) and b.kind == 'set' and b.term is None and not b.items and isinstance(op, ast.LtE):
            ta = self.term(a)
            return ta == z3.EmptySet(ta.sort().domain())
        if isinstance(tya, TSet) or isinstance(tyb, TSet):
            ta, tb = self.term(a, tyb or tya), self.term(b, tya or tyb)
            if isinstance(op, ast.LtE):
                return z3.IsSubset(ta, tb)
            if isinstance(op, ast.GtE):
                return z3.IsSubset(tb, ta)
            raise Untranslatable('strict set order')
        if isinstance(tya, TInt) and (isinstance(tyb, TInt) or isinstance(b, int) and not isinstance(b, bool)):
            ta, tb = a.term, (b.term if isinstance(b, SV) else z3.IntVal(b))
        elif isinstance(tyb, TInt) and isinstance(a, int) and not isinstance(a, bool):
            ta, tb = z3.IntVal(a), b.term
        else:
            ta, tb = self.num_term(a), self.num_term(b)
        return {ast.Lt: ta < tb, ast.LtE: ta <= tb, ast.Gt: ta > tb, ast.GtE: ta >= tb}[type(op)]

    def contains(self, container, item, fr, node):
        if isinstance(container, Box):
            if container.kind == 'dict':
                if container.items is not None and is_concrete(item):
                    return item in container.items
                if container.items is not None:
                    return self.disj([self.equal(k, item) for k in container.items])
                raise Untranslatable('in on symbolic dict box')
            if container.term is None:
                return self.disj([self.equal(x, item) for x in container.items])
            if container.kind == 'set':
                return z3.IsMember(self.term(item, container.elem), container.term)
            return z3.Contains(container.term, z3.Unit(self.term(item, container.elem)))
        if isinstance(container, SV):
            ty = container.ty
            if isinstance(ty, TSeq):
                return z3.Contains(container.term, z3.Unit(self.term(item, ty.elem)))
            if isinstance(ty, TSet):
                return z3.IsMember(self.term(item, ty.elem), container.term)
            if isinstance(ty, TStr):
                return z3.Contains(container.term, self.term(item, TStr()))
            if isinstance(ty, TMap):
                sel = z3.Select(container.term, self.term(item, TStr()))
                return z3.Not(self.ct.opt_is_none(ty.val, sel))
            raise Untranslatable(f'in on {ty!r}')
        if isinstance(container, (tuple, list, set, frozenset, dict)):
            if is_concrete(item) and is_concrete(container):
                return item in container
            return self.disj([self.equal(x, item) for x in container])
        if isinstance(container, type) and issubclass(container, enum.Enum):
            # `x in EnumClass`
            if isinstance(item, SV):
                return isinstance(item.ty, TEnum) and item.ty.pyenum is container
            return item in container
        if isinstance(container, str) and isinstance(item, SV):
            raise Untranslatable('symbolic substring test in a constant')
        return item in container

    # ------------------------------------------------------------------ arithmetic
    def eval_BinOp(self, node, fr):
        a = self.eval(node.left, fr)
        b = self.eval(node.right, fr)
        return self.binop(node.op, a, b, fr, node)

    def binop(self, op, a, b, fr, node):
        import operator
        if not isinstance(a, (SV, Box)) and not isinstance(b, (SV, Box)):
            if isinstance(a, tuple) and isinstance(b, tuple) and isinstance(op, ast.Add):
                return a + b
            if is_concrete(a) and is_concrete(b):
                f = {ast.Add: operator.add, ast.Sub: operator.sub, ast.Mult: operator.mul,
                     ast.Div: operator.truediv, ast.Pow: operator.pow, ast.BitAnd: operator.and_,
                     ast.BitOr: operator.or_, ast.Mod: operator.mod, ast.FloorDiv: operator.floordiv}[type(op)]
                try:
                    return f(a, b)
                except Exception as e:   # real Python exception of the real operation
                    self.raise_exc(type(e), str(e), fr, node)
        # an Optional operand known not to be None stands for its value
        if isinstance(a, SV) and isinstance(a.ty, TOpt):
            a = self.coerce(a, a.ty.elem)
        if isinstance(b, SV) and isinstance(b.ty, TOpt):
            b = self.coerce(b, b.ty.elem)
        tya = self.ty_of(a)
        tyb = self.ty_of(b)
        # DataType flags
        if isinstance(tya, TDT) or isinstance(tyb, TDT):
            if isinstance(tya, TDT) and isinstance(tyb, TDT):
                ta, tb = self.term(a, TDT()), self.term(b, TDT())
                if isinstance(op, ast.BitAnd):
                    return SV(ta & tb, TDT())
                if isinstance(op, ast.BitOr):
                    return SV(ta | tb, TDT())
                if isinstance(op, ast.BitXor):
                    return SV(ta ^ tb, TDT())
            raise Untranslatable(f'DataType operator {type(op).__name__} with {tya!r},{tyb!r}')
        # sets
        if isinstance(a, Box) and a.kind == 'set' or isinstance(b, Box) and b.kind == 'set' \
                or isinstance(tya, TSet) or isinstance(tyb, TSet):
            ty = tya if isinstance(tya, TSet) else tyb
            if ty is None:
                # both concrete-item boxes of unknown type
                ty = TSet(self.ty_of((a.items or b.items)[0]))
            if isinstance(op, ast.BitOr):
                # union with a displayed set {x, y}: element insertions (plain array stores)
                for big, small in ((a, b), (b, a)):
                    disp = getattr(small, 'display', None) if isinstance(small, Box) else None
                    if disp is None and isinstance(small, Box) and small.kind == 'set' and small.term is None:
                        disp = small.items
                    if disp is not None and not (isinstance(big, Box) and getattr(big, 'display', None) is not None
                                                 and big is b):
                        t = self.term(big, ty)
                        for x in disp:
                            t = z3.SetAdd(t, self.term(x, ty.elem))
                        return Box('set', term=t, elem=ty.elem)
            ta, tb = self.term(a, ty), self.term(b, ty)
            if isinstance(op, ast.BitOr):
                return Box('set', term=z3.SetUnion(ta, tb), elem=ty.elem)
            if isinstance(op, ast.BitAnd):
                return Box('set', term=z3.SetIntersect(ta, tb), elem=ty.elem)
            if isinstance(op, ast.Sub):
                return Box('set', term=z3.SetDifference(ta, tb), elem=ty.elem)
            raise Untranslatable('set operator')
        # sequences and strings
        if isinstance(op, ast.Add) and (isinstance(tya, (TSeq, TStr)) or isinstance(tyb, (TSeq, TStr))
                                        or isinstance(a, Box) or isinstance(b, Box)):
            ty = tya if isinstance(tya, (TSeq, TStr)) else tyb
            if ty is None:
                raise Untranslatable('concatenation of unknown element type')
            if isinstance(a, Box) or isinstance(b, Box):
                return Box('list', term=z3.Concat(self.term(a, ty), self.term(b, ty)), elem=ty.elem)
            ta, tb = self.term(a, ty), self.term(b, ty)
            return SV(z3.Concat(ta, tb), ty)
        if isinstance(tya, TVal) or isinstance(tyb, TVal):
            name = {ast.Add: 'add', ast.Sub: 'sub', ast.Mult: 'mul', ast.Div: 'div', ast.Pow: 'pow'}.get(type(op))
            if name is None:
                raise Untranslatable('payload operator')
            return self.val_arith(name, a, b, fr, node)
        # integers / reals
        if isinstance(tya, (TInt, TReal, TBool)) and isinstance(tyb, (TInt, TReal, TBool)):
            both_int = isinstance(tya, TInt) and isinstance(tyb, TInt)
            if both_int and not isinstance(op, (ast.Div, ast.Pow)):
                ta, tb = self.term(a, TInt()), self.term(b, TInt())
                if isinstance(op, ast.Add):
                    return SV(ta + tb, TInt())
                if isinstance(op, ast.Sub):
                    return SV(ta - tb, TInt())
                if isinstance(op, ast.Mult):
                    return SV(ta * tb, TInt())
            ta, tb = self.num_term(a), self.num_term(b)
            if isinstance(op, ast.Add):
                return SV(ta + tb, TReal())
            if isinstance(op, ast.Sub):
                return SV(ta - tb, TReal())
            if isinstance(op, ast.Mult):
                return SV(ta * tb, TReal())
            if isinstance(op, ast.Div):
                if self.ex.branch(tb == 0, 'div0'):
                    self.raise_exc(ZeroDivisionError, 'division by zero', fr, node)
                return SV(ta / tb, TReal())
        raise Untranslatable(f'binary {type(op).__name__} on {tya!r}, {tyb!r}')

    # ------------------------------------------------------------------ subscripts
    def eval_Subscript(self, node, fr):
        obj = self.eval(node.value, fr)
        if isinstance(node.slice, ast.Slice):
            lo = self.eval(node.slice.lower, fr) if node.slice.lower is not None else None
            hi = self.eval(node.slice.upper, fr) if node.slice.upper is not None else None
            if node.slice.step is not None:
                raise Untranslatable('slice step')
            return self.slice(obj, lo, hi, fr, node)
        idx = self.eval(node.slice, fr)
        return self.index(obj, idx, fr, node)

    def index(self, obj, idx, fr, node):
        if isinstance(obj, Box):
            if obj.kind == 'dict':
                if obj.items is not None and is_concrete(idx):
                    if idx not in obj.items:
                        self.raise_exc(KeyError, repr(idx), fr, node)
                    return obj.items[idx]
                raise Untranslatable('symbolic dict subscript')
            if obj.term is None and isinstance(idx, int):
                if not -len(obj.items) <= idx < len(obj.items):
                    self.raise_exc(IndexError, 'list index out of range', fr, node)
                return obj.items[idx]
            self.box_symbolize(obj)
            obj = SV(obj.term, TSeq(obj.elem))
        if isinstance(obj, SV):
            ty = obj.ty
            if isinstance(ty, (TSeq, TStr)):
                n = z3.Length(obj.term)
                i = self.term(idx, TInt()) if not isinstance(idx, int) else z3.IntVal(idx)
                if isinstance(idx, int) and idx < 0:
                    ok = n >= -idx
                    pos = n - (-idx)       # the same term shape as list.pop() / s[:-k] (n - k)
                else:
                    ok = z3.And(i >= 0, i < n) if not isinstance(idx, int) else i < n
                    pos = i
                if not self.ex.branch(ok, 'index-ok'):
                    self.raise_exc(IndexError, 'index out of range', fr, node)
                if isinstance(ty, TStr):
                    return SV(z3.SubString(obj.term, pos, 1), TStr())
                return SV(obj.term[pos], ty.elem, oid=('path', 'nth', str(obj.oid), str(pos)))
            if isinstance(ty, TMap):
                k = self.term(idx, TStr())
                sel = z3.Select(obj.term, k)
                if self.ex.branch(self.ct.opt_is_none(ty.val, sel), 'key-missing'):
                    self.raise_exc(KeyError, 'key', fr, node)
                return SV(self.ct.opt_the(ty.val, sel), ty.val)
            raise Untranslatable(f'subscript on {ty!r}')
        if isinstance(obj, (tuple, list, str)):
            if isinstance(idx, SV):
                if isinstance(obj, tuple):
                    ty = self.ty_of(obj)
                    if ty is None:
                        raise Untranslatable('symbolic index into heterogeneous tuple')
                    return self.index(SV(self.term(obj, ty), ty), idx, fr, node)
                raise Untranslatable('symbolic index into concrete sequence')
            try:
                return obj[idx]
            except IndexError as e:
                self.raise_exc(IndexError, str(e), fr, node)
        if isinstance(obj, dict):
            if is_concrete(idx):
                if idx not in obj:
                    self.raise_exc(KeyError, repr(idx), fr, node)
                return obj[idx]
            raise Untranslatable('symbolic key into concrete dict')
        if isinstance(obj, type) and issubclass(obj, enum.Enum):
            if isinstance(idx, SV):
                # Enum['NAME'] with a symbolic name: one outcome per member + KeyError
                names = list(obj.__members__)
                conds = [idx.term == z3.StringVal(n) for n in names]
                conds.append(z3.And(*[z3.Not(c) for c in conds]))
                i = self.ex.choose(conds, [f'member:{n}' for n in names] + ['member:none'])
                if i == len(names):
                    self.raise_exc(KeyError, 'enum member', fr, node)
                return obj[names[i]]
            try:
                return obj[idx]
            except KeyError as e:
                self.raise_exc(KeyError, str(e), fr, node)
        if obj in (self.typing_names()):
            return obj
        try:
            return obj[idx]
        except Exception as e:
            raise Untranslatable(f'subscript on {type(obj).__name__}: {e}')

    def typing_names(self):
        return ()

    def slice(self, obj, lo, hi, fr, node):
        if isinstance(obj, Box):
            if obj.term is None and (lo is None or isinstance(lo, int)) and (hi is None or isinstance(hi, int)):
                return Box('list', items=list(obj.items[lo:hi]), elem=obj.elem)
            self.box_symbolize(obj)
            r = self.slice(SV(obj.term, TSeq(obj.elem)), lo, hi, fr, node)
            return Box('list', term=r.term, elem=obj.elem)
        if isinstance(obj, SV) and isinstance(obj.ty, (TSeq, TStr)):
            n = z3.Length(obj.term)
            sub = z3.SubString if isinstance(obj.ty, TStr) else z3.SubSeq
            # the common shapes s[k:], s[:-k], s[:k] with constant k: one extract (z3's extract
            # already yields the empty sequence when the bounds are out of range, as Python does)
            if isinstance(lo, int) and lo >= 0 and hi is None:
                return SV(sub(obj.term, z3.IntVal(lo), n - lo), obj.ty)
            if lo is None and isinstance(hi, int) and hi < 0:
                return SV(sub(obj.term, z3.IntVal(0), n - (-hi)), obj.ty)
            if lo is None and isinstance(hi, SV) and z3.is_app(hi.term) and hi.term.decl().kind() == z3.Z3_OP_SEQ_LENGTH:
                # s[:len(t)] : the bound is a length, hence non-negative: one extract
                return SV(sub(obj.term, z3.IntVal(0), hi.term), obj.ty)

            def norm(x, default):
                if x is None:
                    return default
                if isinstance(x, int):
                    if x < 0:
                        return z3.If(n + x < 0, z3.IntVal(0), n + x)
                    return z3.If(z3.IntVal(x) > n, n, z3.IntVal(x))
                t = self.term(x, TInt())
                return z3.If(t < 0, z3.If(n + t < 0, z3.IntVal(0), n + t), z3.If(t > n, n, t))
            l = norm(lo, z3.IntVal(0))
            h = norm(hi, n)
            ln = z3.If(h - l < 0, z3.IntVal(0), h - l)
            return SV(z3.SubSeq(obj.term, l, ln) if not isinstance(obj.ty, TStr)
                      else z3.SubString(obj.term, l, ln), obj.ty)
        if isinstance(obj, (tuple, list, str)) and (lo is None or isinstance(lo, int)) and (hi is None or isinstance(hi, int)):
            return obj[lo:hi]
        if isinstance(obj, tuple):
            ty = self.ty_of(obj)
            if ty is not None:
                return self.slice(SV(self.term(obj, ty), ty), lo, hi, fr, node)
        raise Untranslatable('slice')

    # ------------------------------------------------------------------ f-strings
    def eval_JoinedStr(self, node, fr):
        parts = []
        opaque = False
        for v in node.values:
            if isinstance(v, ast.Constant):
                parts.append(v.value)
                continue
            assert isinstance(v, ast.FormattedValue)
            if v.conversion == ord('r') or v.format_spec is not None:
                try:
                    self.eval(v.value, fr)       # still evaluated (may raise / be unsafe)
                except Untranslatable:
                    pass
                opaque = True
                continue
            val = self.eval(v.value, fr)
            try:
                s = self.to_str(val, fr, node)
            except Untranslatable:
                opaque = True
                continue
            if isinstance(s, Opaque):
                opaque = True
            else:
                parts.append(s)
        if opaque:
            return Opaque('f-string')
        if all(isinstance(p, str) for p in parts):
            return ''.join(parts)
        ts = [z3.StringVal(p) if isinstance(p, str) else p.term for p in parts]
        return SV(z3.Concat(*ts) if len(ts) > 1 else ts[0], TStr())

    def eval_Starred(self, node, fr):
        raise Untranslatable('starred expression outside call/tuple')

    # ------------------------------------------------------------------ comprehensions
    def eval_GeneratorExp(self, node, fr):
        return self.comprehension(node, fr, 'gen')

    def eval_ListComp(self, node, fr):
        r = self.comprehension(node, fr, 'list')
        return r

    def eval_SetComp(self, node, fr):
        r = self.comprehension(node, fr, 'list')
        b = Box('set', items=[])
        if isinstance(r, Box) and r.term is None:
            for x in r.items:
                self.set_add(b, x)
            return b
        raise Untranslatable('symbolic set comprehension')

    def eval_Attribute(self, node, fr):
        obj = self.eval(node.value, fr)
        return self.getattr_value(obj, node.attr, fr, node)

    def eval_Call(self, node, fr):
        return self.eval_call(node, fr)

    def eval_NamedExpr(self, node, fr):
        raise Untranslatable('walrus')
