"""Property runner: tasks -> worker pool -> verdict, evidence, replay files."""
from __future__ import annotations

import base64
import hashlib
import importlib
import json
import multiprocessing as mp
import os
import pathlib
import pickle
import sys
import time
import traceback
from typing import Any, Dict, List, Optional

ROOT = pathlib.Path(__file__).resolve().parent.parent
REPO_SRC = os.environ.get('VERIF_REPO_SRC', '/repo/src')


class Task:
    def __init__(self, kind, name, **kw):
        self.kind = kind      # fn | lemma | ground | native
        self.name = name
        self.kw = kw

    def key(self):
        return f'{self.kind}:{self.name}:{self.kw.get("self_class") or ""}' + (f':{self.kw["shape"]}' if self.kw.get('shape') else '')


def Fn(qualname, classes=None, safety_tag='aux', **kw):
    """verification tasks for a function; classes: list of concrete class names for virtual methods"""
    if classes:
        return [Task('fn', qualname, self_class=c, safety_tag=safety_tag, **kw) for c in classes]
    return [Task('fn', qualname, self_class=None, safety_tag=safety_tag, **kw)]


def Lem(name, **kw):
    return [Task('lemma', name, **kw)]


def Ground(name, **kw):
    return [Task('ground', name, **kw)]


def Native(name, **kw):
    return [Task('native', name, **kw)]


class Prop:
    def __init__(self, pid, modules, tasks, bounded=(), assumptions=(), trusted_base=(), level='proof',
                 explanation='', dep_tags=()):
        # clauses tagged with another property that this property's argument depends on (callee contracts):
        # a refuted one breaks this property as well
        self.dep_tags = set(dep_tags)
        self.id = pid
        self.modules = list(modules)
        self.tasks: List[Task] = [t for group in tasks for t in group]
        self.bounded: List[Task] = [t for group in bounded for t in group]
        self.assumptions = list(assumptions)
        self.trusted_base = list(trusted_base)
        self.level = level
        self.explanation = explanation


# ---------------------------------------------------------------------------------------------
# worker side
# ---------------------------------------------------------------------------------------------

_WORKER_READY = False


def _worker_init():
    global _WORKER_READY
    if _WORKER_READY:
        return
    sys.path.insert(0, str(ROOT))
    if REPO_SRC not in sys.path:
        sys.path.insert(0, REPO_SRC)
    from pyvc import classtable
    classtable.get_table(REPO_SRC)
    _WORKER_READY = True


def ob_to_dict(ob, res, task, tier):
    d = {'name': ob.name, 'kind': ob.kind, 'tag': ob.tag, 'status': ob.status, 'backend': ob.backend,
         'time': round(ob.time, 4), 'path': list(ob.path_sig), 'exact': ob.exact, 'where': ob.where,
         'path_sig': hashlib.sha256(('|'.join(ob.path_sig)).encode()).hexdigest()[:12],
         'ladder': getattr(ob, 'ladder', None)}
    return d


def _lemma_info(names):
    from pyvc.contracts import LEMMAS
    return [{'name': n, 'axiom': bool(LEMMAS[n].axiom), 'doc': (LEMMAS[n].fn.__doc__ or '').strip()} for n in names
            if n in LEMMAS]


def run_task(spec):
    kind, name, kw, modules, tier, seed = spec
    t0 = time.time()
    out = {'kind': kind, 'name': name, 'kw': {k: v for k, v in kw.items() if isinstance(v, (str, int, type(None)))},
           'status': 'ok', 'obligations': [], 'message': ''}
    try:
        _worker_init()
        for m in modules:
            importlib.import_module(m)
        if kind == 'fn':
            from pyvc.verify import verify_function, QUICK_TIMEOUT_MS, THOROUGH_TIMEOUT_MS
            res = verify_function(name, self_class=kw.get('self_class'),
                                  timeout_ms=THOROUGH_TIMEOUT_MS if tier == 'thorough' else QUICK_TIMEOUT_MS,
                                  safety_tag=kw.get('safety_tag', 'aux'), shape=kw.get('shape'))
            out.update(status=res.status, message=res.message, paths=res.paths, source_sha=res.source_sha,
                       contracts_used=res.contracts_used, specs_used=res.specs_used,
                       lemmas_used=_lemma_info(getattr(res, 'lemmas_used', [])),
                       uninterpreted=res.uninterpreted, writes=[list(w) for w in res.writes],
                       pre_sat=res.pre_sat, solver_time=round(res.solver_time, 3))
            for ob in res.obligations:
                d = ob_to_dict(ob, res, kw, tier)
                if getattr(ob, 'replay', None) is not None:
                    d['replay'] = ob.replay
                if ob.status != 'discharged':
                    d['smt_excerpt'] = str(ob.goal)[:600]
                out['obligations'].append(d)
            out['sample'] = sample_obligation(res)
        elif kind == 'lemma':
            from pyvc.lemmas import prove_lemma
            res = prove_lemma(name, timeout_ms=60000 if tier == 'thorough' else 15000)
            out.update(status=res.status, message=res.message, solver_time=round(res.solver_time, 3),
                       lemmas_used=_lemma_info(getattr(res, 'lemmas_used', [])),
                       axiom=getattr(res, 'axiom', None))
            for ob in res.obligations:
                d = ob_to_dict(ob, res, kw, tier)
                if ob.status != 'discharged':
                    d['smt_excerpt'] = str(ob.goal)[:600]
                    if ob.model is not None:
                        d['model'] = str(ob.model)[:1500]
                out['obligations'].append(d)
            out['sample'] = sample_obligation(res)
        elif kind in ('ground', 'native'):
            modname, fname = name.rsplit('.', 1)
            fn = getattr(importlib.import_module(modname), fname)
            r = fn(tier=tier, seed=seed, **{k: v for k, v in kw.items() if k not in ('self_class', 'safety_tag')})
            out.update(r)
    except Exception as e:
        out['status'] = 'error'
        out['message'] = f'{type(e).__name__}: {e}\n{traceback.format_exc()[-2000:]}'
    out['wall'] = round(time.time() - t0, 3)
    return out


def sample_obligation(res):
    for ob in res.obligations:
        if ob.status == 'discharged' and ob.kind in ('post', 'raises', 'lemma'):
            hy = [str(h).replace('\n', ' ')[:200] for h in ob.hyps[:6]]
            return {'obligation': ob.name, 'path': list(ob.path_sig)[:8], 'hypotheses': hy,
                    'goal': str(ob.goal).replace('\n', ' ')[:400], 'backend': ob.backend}
    return None


def replay_model(qualname, self_class, res, ob):
    """turn the solver's counter-model into real objects and run the real function on them"""
    from pyvc.native import concretize, native_check
    rep = {'obligation': ob.name, 'model': str(ob.model)[:3000]}
    try:
        env, notes = concretize(res.inputs, res.input_tys, ob.model)
        rep['notes'] = notes
        rep['inputs_repr'] = {k: repr(v)[:500] for k, v in env.items()}
        try:
            rep['inputs_pickle'] = base64.b64encode(pickle.dumps(env)).decode()
        except Exception as e:
            rep['inputs_pickle'] = None
            rep['notes'].append(f'inputs not picklable: {e}')
        chk = native_check(qualname, env, self_class)
        rep['native'] = chk
        rep['confirmed'] = bool(chk.get('valid_input') and chk.get('violated'))
    except Exception as e:
        rep['confirmed'] = False
        rep['error'] = f'{type(e).__name__}: {e}'
    return rep


# ---------------------------------------------------------------------------------------------
# main side
# ---------------------------------------------------------------------------------------------

def _child(spec, conn):
    try:
        import resource
        lim = 6 * 1024 ** 3
        resource.setrlimit(resource.RLIMIT_AS, (lim, lim))
    except Exception:
        pass
    try:
        r = run_task(spec)
    except MemoryError:
        r = {'kind': spec[0], 'name': spec[1], 'kw': {}, 'status': 'error', 'obligations': [],
             'message': 'out of memory (6 GiB limit)'}
    try:
        conn.send(r)
    except Exception as e:
        conn.send({'kind': spec[0], 'name': spec[1], 'kw': {}, 'status': 'error', 'obligations': [],
                   'message': f'result not transferable: {e}'})
    conn.close()


def run_pool(specs, jobs, wall_limit):
    """one process per task (fork), at most `jobs` at a time, each killed after wall_limit seconds:
    a solver call that ignores its timeout cannot hang or exhaust the machine.  A worker that dies (z3 5.1 segfaults
    sporadically - observed once in ~200 runs) is started again, at most twice."""
    results = _run_pool_once(specs, jobs, wall_limit)
    for attempt in range(2):
        again = [i for i, r in enumerate(results)
                 if r.get('status') == 'error' and ('worker died' in r.get('message', '') or 'worker exited' in r.get('message', ''))]
        if not again:
            break
        redo = _run_pool_once([specs[i] for i in again], jobs, wall_limit)
        for i, r in zip(again, redo):
            r['retries'] = attempt + 1
            results[i] = r
    return results


def _run_pool_once(specs, jobs, wall_limit):
    ctx = mp.get_context('fork')
    results = [None] * len(specs)
    pending = list(enumerate(specs))
    running = {}
    while pending or running:
        while pending and len(running) < jobs:
            i, sp = pending.pop(0)
            parent, child = ctx.Pipe(duplex=False)
            p = ctx.Process(target=_child, args=(sp, child), daemon=False)
            p.start()
            child.close()
            running[i] = (p, parent, time.time())
        for i in list(running):
            p, conn, t0 = running[i]
            if conn.poll(0.02):
                try:
                    results[i] = conn.recv()
                except EOFError:
                    results[i] = {'kind': specs[i][0], 'name': specs[i][1], 'kw': {}, 'status': 'error',
                                  'obligations': [], 'message': 'worker died'}
                p.join(5)
                del running[i]
            elif not p.is_alive():
                results[i] = {'kind': specs[i][0], 'name': specs[i][1], 'kw': {}, 'status': 'error',
                              'obligations': [], 'message': f'worker exited with code {p.exitcode}'}
                del running[i]
            elif time.time() - t0 > wall_limit:
                p.kill()
                p.join(5)
                results[i] = {'kind': specs[i][0], 'name': specs[i][1], 'kw': dict(specs[i][2]), 'status': 'timeout',
                              'obligations': [], 'message': f'task exceeded {wall_limit}s and was killed'}
                del running[i]
    return results


def load_baseline(pid, what='discharged'):
    """names of the obligations discharged on the unchanged tree / keys of the tasks all of whose obligations
    were (committed; written only by `./check <id> --update-baseline`, never by a registered command)"""
    p = ROOT / 'baseline' / f'{pid}.json'
    if not p.exists():
        return set()
    return set(json.loads(p.read_text()).get(what, []))


def load_known_findings():
    p = ROOT / 'known_findings.json'
    if not p.exists():
        return []
    return json.loads(p.read_text()).get('findings', [])


def finding_matches(f, pid, ob=None, witness=None):
    if f.get('property') != pid or f.get('status') != 'open':
        return False
    if ob is not None and f.get('obligation_regex'):
        import re
        return re.fullmatch(f['obligation_regex'], ob['name']) is not None
    if ob is not None and f.get('obligation'):
        if f['obligation'] != ob['name']:
            return False
        if f.get('path_sig') and f['path_sig'] != ob['path_sig']:
            return False
        return True
    if witness is not None and f.get('witness') is not None:
        return f['witness'] == witness
    return False


def run_property(prop: Prop, tier='quick', seed=0, jobs=None) -> int:
    t0 = time.time()
    pid = prop.id
    tasks = list(prop.tasks) + list(prop.bounded)
    specs = [(t.kind, t.name, t.kw, prop.modules, tier, seed) for t in tasks]
    jobs = jobs or min(16, max(1, len(specs)))
    if os.environ.get('VERIF_SERIAL'):
        results = [run_task(s) for s in specs]
    else:
        results = run_pool(specs, jobs, wall_limit=2700 if tier == 'thorough' else 1200)
    known = load_known_findings()
    violations = []
    known_hits = []
    faults = []
    undecided = []
    aux_lost = []
    n_ob = n_dis = 0
    by_backend: Dict[str, int] = {}
    solver_time = 0.0
    functions = []
    samples = []
    trusted = set(prop.trusted_base)
    bounded_parts = []
    untranslatable = []
    replays_dir = ROOT / 'replays'
    replays_dir.mkdir(exist_ok=True)
    lost = []
    seen_ob = set()
    axioms_used: Dict[str, str] = {}
    lemma_tasks = {t.name for t in tasks if t.kind == 'lemma'}
    baseline = load_baseline(pid)
    verified_tasks = load_baseline(pid, 'verified_tasks')
    for t, r in zip(tasks, results):
        if r['status'] == 'error':
            faults.append(f'{t.key()}: {r["message"]}')
            continue
        if r['status'] in ('untranslatable', 'timeout'):
            untranslatable.append(f'{t.key()}: {r["message"]}')
            continue
        solver_time += r.get('solver_time', 0) or 0
        for li in r.get('lemmas_used', []) or []:
            if li['axiom']:
                axioms_used[li['name']] = li['doc']
            elif li['name'] not in lemma_tasks:
                faults.append(f'{t.key()}: uses lemma {li["name"]} which no task of this property proves')
        if r['kind'] == 'lemma' and r.get('axiom'):
            axioms_used[r['name']] = r['axiom']
            continue
        if r['kind'] == 'lemma' and not r['obligations']:
            faults.append(f'{t.key()}: zero obligations generated')
        if r['kind'] == 'fn':
            functions.append({'function': r['name'], 'class': r['kw'].get('self_class'), 'paths': r.get('paths'),
                              'source_sha256_16': r.get('source_sha'), 'pre_sat': r.get('pre_sat'),
                              'obligations': len(r['obligations'])})
            if r.get('pre_sat') == 'unsat':
                faults.append(f'{t.key()}: contradictory precondition')
            if not r['obligations']:
                faults.append(f'{t.key()}: zero obligations generated')
            for u in r.get('uninterpreted', []):
                trusted.add(f'uninterpreted symbol {u}')
            for c in r.get('contracts_used', []):
                pass
        if r.get('sample'):
            samples.append(r['sample'])
        if r['kind'] in ('ground', 'native'):
            n_ob += r.get('obligations_n', 0)
            n_dis += r.get('discharged_n', 0)
            if r.get('obligations_n'):
                by_backend['evaluation'] = by_backend.get('evaluation', 0) + r.get('discharged_n', 0)
            if r.get('bounded'):
                bounded_parts.append(r['bounded'])
            for s in r.get('samples', [])[:2]:
                samples.append(s)
            for v in r.get('violations', []):
                kf = next((f for f in known if finding_matches(f, pid, witness=v.get('witness'))), None)
                if kf:
                    known_hits.append(kf)
                else:
                    violations.append({'task': t.key(), **v})
            for f_ in r.get('faults', []):
                faults.append(f'{t.key()}: {f_}')
            continue
        for ob in r['obligations']:
            okey = (ob['name'], ob['path_sig'])
            if okey in seen_ob and ob['kind'] == 'inv':
                continue
            seen_ob.add(okey)
            mine = ob['tag'] == pid or ob['tag'] in prop.dep_tags
            if ob['kind'] in ('inv', 'pre') or ob['tag'] in (pid, 'aux') or mine:
                n_ob += 1
            else:
                continue     # clause belonging to another property: counted there
            if ob['status'] == 'discharged':
                n_dis += 1
                by_backend[ob['backend']] = by_backend.get(ob['backend'], 0) + 1
                continue
            if ob['status'] == 'unknown':
                if mine and ob['kind'] not in ('pre',) and (ob['name'] in baseline or t.key() in verified_tasks):
                    # discharged on the unchanged tree (committed baseline), not discharged now: reported as a
                    # violation without a failing input, with the back ends' answers as the verifier's output
                    lost.append((t, r, ob))
                else:
                    undecided.append({'task': t.key(), 'obligation': ob['name'], 'reason': 'solver unknown/timeout'})
                continue
            # refuted
            rep = ob.get('replay')
            if ob['kind'] in ('inv', 'pre') or not mine:
                (aux_lost if not mine else undecided).append(
                    {'task': t.key(), 'obligation': ob['name'], 'reason': 'auxiliary clause refuted',
                     'excerpt': ob.get('smt_excerpt')})
                if rep and rep.get('confirmed') and mine:
                    pass
                continue
            kf = next((f for f in known if finding_matches(f, pid, ob=ob)), None)
            if kf is not None:
                known_hits.append(kf)
                continue
            if rep and rep.get('confirmed'):
                violations.append({'task': t.key(), 'obligation': ob, 'replay': rep, 'found': True})
            elif rep and rep.get('native', {}).get('valid_input') and ob['exact'] and r['kind'] == 'fn' \
                    and not rep.get('native', {}).get('clause_error') and not rep.get('error'):
                faults.append(f'{t.key()}: {ob["name"]}: solver model satisfies the contract natively '
                              f'(encoding disagreement) inputs={rep.get("inputs_repr")}')
            elif ob['exact']:
                violations.append({'task': t.key(), 'obligation': ob, 'replay': rep, 'found': False})
            else:
                undecided.append({'task': t.key(), 'obligation': ob['name'],
                                  'reason': 'refuted on an inexact path (loop cut / uninterpreted symbol)'})
    # ---- obligations lost with respect to the baseline: one more attempt, alone and with the long budget
    if lost:
        retry_keys = {}
        for t, r, ob in lost:
            retry_keys.setdefault(t.key(), (t, []))[1].append(ob)
        for key, (t, obs) in retry_keys.items():
            if os.environ.get('VERIF_NO_RETRY'):
                rr = None
            else:
                rr = run_pool([(t.kind, t.name, t.kw, prop.modules, 'thorough', seed)], 1, wall_limit=1500)[0]
            still = {}
            if rr is not None and rr.get('status') == 'ok':
                for ob2 in rr['obligations']:
                    if ob2['status'] != 'discharged':
                        still[(ob2['name'], ob2['path_sig'])] = ob2
            for ob in obs:
                ob2 = still.get((ob['name'], ob['path_sig'])) if rr is not None and rr.get('status') == 'ok' else ob
                if ob2 is None:
                    n_dis += 1
                    by_backend['retry'] = by_backend.get('retry', 0) + 1
                    continue
                violations.append({'task': key, 'obligation': ob2, 'replay': None, 'found': False,
                                   'verifier_output': {'status': ob2['status'], 'ladder': ob2.get('ladder'),
                                                       'goal_excerpt': ob2.get('smt_excerpt'),
                                                       'note': 'obligation discharged on the unchanged tree (baseline) is no longer discharged'}})
    # ---- verdict
    exit_code = 0
    lines = []
    vcount = 0
    for i, v in enumerate(violations):
        vcount += 1
        path = replays_dir / f'{pid}_{i}.json'
        path.write_text(json.dumps({'property': pid, **v}, indent=1, default=str))
        suffix = '' if v.get('found', True) else ' no-failing-input-found'
        lines.append(f'VIOLATION property={pid} replay={path}{suffix}')
        exit_code = 1
    shown = set()
    for kf in known_hits:
        k = json.dumps(kf, sort_keys=True)
        if k in shown:
            continue
        shown.add(k)
        lines.append(f'KNOWN-FINDING: property={pid} {kf.get("what", "")}')
    if faults and exit_code == 0:
        exit_code = 3
    wall = time.time() - t0
    level = prop.level
    coverage = {
        'obligations': n_ob, 'discharged': n_dis,
        'checker_cmd': f'./check {pid} --tier {tier}',
        'trusted_base': sorted(trusted),
        'by_backend': by_backend, 'solver_time_s': round(solver_time, 2),
        'functions_under_contract': functions,
        'samples': samples[:6] or [{'note': 'no sample'}],
        'bounded_parts': bounded_parts,
        'bounded_instead': undecided,
        'aux_clauses_lost': aux_lost,
        'untranslatable': untranslatable,
        'known_findings': [kf.get('what') for kf in known_hits],
        'checker_faults': faults,
        'explanation': prop.explanation or f'{n_dis}/{n_ob} obligations discharged',
        'evaluations': max(1, sum(b.get('cases', 0) for b in bounded_parts) or n_ob),
        'distinct_nontrivial': max(2, sum(b.get('distinct', 0) for b in bounded_parts) or n_dis),
        'rule': 'obligations: one per path end x contract clause (distinct by name and path signature); '
                'bounded parts: distinct generated inputs, non-trivial = reaches the function under contract',
    }
    if level == 'proof' and (n_ob == 0 or n_dis != n_ob or untranslatable):
        level = 'other'
        coverage['explanation'] = (f'proof incomplete on this run: {n_dis}/{n_ob} obligations discharged, '
                                   f'{len(untranslatable)} functions untranslatable; see bounded_instead')
    coverage['axioms_assumed'] = [f'{k}: {v}' for k, v in sorted(axioms_used.items())]
    ev = {'property_id': pid, 'tier': tier, 'seed': int(seed), 'level': level, 'coverage': coverage,
          'assumptions': list(prop.assumptions) + [f'axiom {k} (assumed, checked natively only): {v}'
                                                   for k, v in sorted(axioms_used.items())],
          'wall_s': round(wall, 2), 'violations': vcount}
    if os.environ.get('VERIF_UPDATE_BASELINE'):
        names_all, names_bad = set(), set()
        vt = []
        for t, r in zip(tasks, results):
            obs_ = [ob for ob in (r.get('obligations', []) or []) if isinstance(ob, dict)]
            if r.get('status') == 'ok' and obs_ and all(ob['status'] == 'discharged' for ob in obs_):
                vt.append(t.key())
            for ob in r.get('obligations', []) or []:
                if not isinstance(ob, dict):
                    continue
                names_all.add(ob['name'])
                if ob['status'] != 'discharged':
                    names_bad.add(ob['name'])
        (ROOT / 'baseline').mkdir(exist_ok=True)
        (ROOT / 'baseline' / f'{pid}.json').write_text(json.dumps(
            {'property': pid, 'discharged': sorted(names_all - names_bad), 'verified_tasks': sorted(vt)}, indent=1))
    (ROOT / 'evidence').mkdir(exist_ok=True)
    (ROOT / 'evidence' / f'{pid}.json').write_text(json.dumps(ev, indent=1, default=str))
    for ln in lines:
        print(ln)
    print(f'[{pid}] tier={tier} obligations={n_ob} discharged={n_dis} undecided={len(undecided)} '
          f'aux_lost={len(aux_lost)} untranslatable={len(untranslatable)} violations={vcount} '
          f'known={len(shown)} faults={len(faults)} wall={wall:.1f}s exit={exit_code}')
    for u in untranslatable:
        print('  untranslatable:', u[:300])
    for u in undecided[:10]:
        print('  undecided:', json.dumps(u)[:300])
    for u in aux_lost[:10]:
        print('  aux lost:', json.dumps(u)[:300])
    for f_ in faults[:10]:
        print('  FAULT:', f_[:1500])
    return exit_code


def replay_file(path) -> int:
    sys.path.insert(0, str(ROOT))
    if REPO_SRC not in sys.path:
        sys.path.insert(0, REPO_SRC)
    d = json.loads(pathlib.Path(path).read_text())
    pid = d['property']
    prop = importlib.import_module(f'props.{pid}').PROP
    _worker_init()
    for m in prop.modules:
        importlib.import_module(m)
    rep = d.get('replay') or {}
    if d.get('native_replay'):
        modname, fname = d['native_replay'].rsplit('.', 1)
        fn = getattr(importlib.import_module(modname), fname)
        bad = fn(d.get('witness'))
        print('replay:', 'still violated' if bad else 'not violated', d.get('witness'))
        if bad:
            print(f'VIOLATION property={pid} replay={path}')
        return 1 if bad else 0
    if str(d.get('task', '')).startswith(('native:', 'ground:')):
        # a violation found by a bounded / ground task: run that task again on the current tree and look for
        # the same witness
        kind, name = d['task'].split(':')[0], d['task'].split(':')[1]
        t = next((t for t in list(prop.tasks) + list(prop.bounded) if t.kind == kind and t.name == name), None)
        if t is None:
            print('replay: the task of this violation is no longer registered:', d['task'])
            return 0
        r = run_task((t.kind, t.name, t.kw, prop.modules, os.environ.get('VERIF_TIER', 'quick'),
                      int(os.environ.get('VERIF_SEED', '0') or 0)))
        same = [v for v in r.get('violations', []) if v.get('witness') == d.get('witness')]
        print('replay:', 'still violated' if same else 'not reproduced', '-', d.get('witness'))
        for v in same[:1]:
            print('   ', v.get('what'))
        if same:
            print(f'VIOLATION property={pid} replay={path}')
        return 1 if same else 0
    if not rep.get('inputs_pickle'):
        print('replay file carries no concrete input (no-failing-input-found); obligation:',
              (d.get('obligation') or {}).get('name'))
        return 0
    from pyvc.native import native_check
    env = pickle.loads(base64.b64decode(rep['inputs_pickle']))
    task = d['task'].split(':')
    chk = native_check(task[1], env, task[2] or None)
    print(json.dumps(chk, indent=1, default=str))
    if chk.get('valid_input') and chk.get('violated'):
        print(f'VIOLATION property={pid} replay={path}')
        return 1
    return 0
