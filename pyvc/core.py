"""Path exploration by replay (DFS over decision scripts), path condition, obligations."""
from __future__ import annotations

import os
import time
from typing import Any, Dict, List, Optional

import z3

from .values import Infeasible, NeedFork, Restart, PathCut, PyRaise, ReturnSig, Untranslatable

FEAS_TIMEOUT_MS = 400


class Obligation:
    def __init__(self, name, kind, tag, hyps, goal, path_sig, exact=True, where=''):
        self.name = name          # e.g. "hpl.types.DataType.cast/ensures"
        self.kind = kind          # post | raises | safety | frame | pre | inv | lemma | vacuity
        self.tag = tag            # property id or 'aux'
        self.hyps = hyps          # list of z3 Bool
        self.goal = goal          # z3 Bool
        self.path_sig = path_sig  # tuple of branch descriptions
        self.exact = exact        # False when a havoc'd/opaque value may influence the query
        self.where = where
        self.status = None        # discharged | refuted | unknown
        self.backend = None
        self.time = 0.0
        self.model = None
        self.inputs = None        # z3 constants that stand for the inputs of the function


class PathState:
    def __init__(self):
        self.pc: List[Any] = []
        self.sig: List[str] = []
        self.effects: List[tuple] = []      # (target SV, old dt term, new dt term, fresh?)
        self.inexact: List[str] = []        # reasons the path is not exact
        self.cls_facts: Dict[int, frozenset] = {}
        self.notes: List[str] = []


class Explorer:
    """Runs `body(explorer)` once per feasible path.  `choose` is the only source of forking."""

    def __init__(self, base_hyps=()):
        self.base_hyps = list(base_hyps)
        self.script: List[int] = []
        self.trace: List[List[int]] = []
        self.pos = 0
        self.st: PathState = PathState()
        self.nofork = 0
        self.must_fork = set()
        self.fresh_counter = 0
        self.paths_run = 0
        self.max_paths = 4000
        self.feas_queries = 0
        self.on_prune = None      # callback(cond): a branch was pruned as infeasible by the quick solver

    # -- fresh names (deterministic per path because the counter is reset) --
    def fresh_name(self, base):
        self.fresh_counter += 1
        return f'{base}!{self.fresh_counter}'

    # -- path condition -----------------------------------------------------
    def assume(self, cond, why=''):
        if isinstance(cond, bool):
            if not cond:
                raise Infeasible()
            return
        sc = z3.simplify(cond)
        if z3.is_true(sc):
            return
        if z3.is_false(sc):
            raise Infeasible()
        # the original term is kept (z3's simplifier rewrites sequence terms into internal symbols
        # such as seq.nth_i / seq.nth_u that other back ends do not know and that obscure the goal)
        self.st.pc.append(cond)
        cond = sc
        # redundant but helpful: "length is zero" also as "is the empty sequence" (the sequence solver
        # does not propagate the former into arguments of recursive functions quickly)
        e = _empty_fact(cond)
        if e is not None:
            self.st.pc.append(e)

    def _quick(self, extra, timeout_ms=None):
        """one bounded query on a fresh solver (an incremental solver that has timed out once can
        hang in push/pop with recursive functions over sequences: observed, so never reused)"""
        self.feas_queries += 1
        s = z3.SimpleSolver() if os.environ.get('VERIF_QUICK_SIMPLE', '1') == '1' else z3.Solver()
        s.set('timeout', timeout_ms or FEAS_TIMEOUT_MS)
        # quantified / lambda facts are left out of the quick queries (z3 does not honour its timeout
        # inside model-based quantifier instantiation): dropping hypotheses only makes the quick
        # answers more conservative (more paths kept, fewer shortcuts taken)
        # recursive functions are abstracted to uninterpreted twins here (fast, weaker): the quick answers
        # only prune paths and choose modelling shortcuts, every real claim is an obligation
        from . import recfuns
        for h in list(self.base_hyps) + list(self.st.pc):
            if not has_quantifier(h):
                s.add(_abs_cached(h))
        for e in extra:
            if has_quantifier(e):
                return z3.unknown
            s.add(recfuns.abstract(e))
        if os.environ.get('VERIF_DUMP_QUICK'):
            open(os.environ['VERIF_DUMP_QUICK'], 'w').write(s.to_smt2())
        return s.check()

    def feasible(self, cond=None) -> bool:
        """pc (and cond) may be satisfiable; `unknown` counts as feasible.  A pruned branch is reported through
        on_prune so that the claim `pc and cond is unsatisfiable` becomes a proof obligation of its own."""
        r = self._quick([] if cond is None else [cond]) != z3.unsat
        if not r and self.on_prune is not None and not self.nofork:
            self.on_prune(cond)
        return r

    def entails(self, cond) -> bool:
        """pc => cond proved by the quick solver (used only as an optimisation / for modelling choices)."""
        return self._quick([z3.Not(cond)]) == z3.unsat

    def choose(self, conds: List[Any], labels: Optional[List[str]] = None, key=None) -> int:
        """n-way fork on mutually exclusive, jointly exhaustive conditions."""
        n = len(conds)
        simp = []
        orig = []
        for c in conds:
            if isinstance(c, bool):
                simp.append(z3.BoolVal(c))
                orig.append(z3.BoolVal(c))
            else:
                simp.append(z3.simplify(c))
                orig.append(c)
        # statically decided?
        live = [i for i, c in enumerate(simp) if not z3.is_false(c)]
        if len(live) == 1:
            self.assume(orig[live[0]])
            return live[0]
        if not live:
            raise Infeasible()
        if self.nofork:
            # forks are invisible to the script inside a no-fork section: exactly one option may be feasible
            feas_l = [i for i in live if self.feasible(simp[i])]
            if not feas_l:
                raise Infeasible()
            if len(feas_l) > 1:
                # a quick query that timed out (machine under load) counts as feasible: before giving up on the
                # no-fork section ask again, patiently
                feas_l = [i for i in feas_l if self._quick([simp[i]], timeout_ms=8000) != z3.unsat]
                if not feas_l:
                    raise Infeasible()
            if len(feas_l) > 1:
                raise NeedFork()
            self.assume(orig[feas_l[0]])
            return feas_l[0]
        if self.pos < len(self.script):
            idx = self.script[self.pos]
            start_fresh = False
        else:
            idx = 0
            start_fresh = True
        # find first feasible option >= idx
        feas = None
        i = idx
        while i < n:
            if i in live and self.feasible(simp[i]):
                feas = i
                break
            i += 1
        if feas is None:
            if os.environ.get('VERIF_TRACE'):
                print('[no feasible option]', 'idx', idx, 'live', live); [print('   PC', str(c).replace(chr(10), ' ')[:400]) for c in self.st.pc]
            # record so that backtracking skips this point
            self.trace.append([n - 1, n])
            self.pos += 1
            raise Infeasible()
        self.trace.append([feas, n])
        self.pos += 1
        self.assume(orig[feas])
        lab = labels[feas] if labels else f'{feas}/{n}'
        self.st.sig.append(lab)
        return feas

    def branch(self, cond, label='') -> bool:
        if isinstance(cond, bool):
            return cond
        sc = z3.simplify(cond)
        if z3.is_true(sc):
            return True
        if z3.is_false(sc):
            return False
        i = self.choose([cond, z3.Not(cond)], [label + ':T', label + ':F'])
        return i == 0

    # -- exploration --------------------------------------------------------
    def explore(self, body):
        """yields (kind, payload, PathState) per path; kind in ret|raise|cut"""
        results = []
        script: List[int] = []
        while True:
            self.script = script
            self.trace = []
            self.pos = 0
            self.st = PathState()
            self.fresh_counter = 0
            self.nofork = 0
            pass
            self.paths_run += 1
            if self.paths_run > self.max_paths:
                pass
                raise Untranslatable(f'more than {self.max_paths} paths')
            restart = False
            try:
                try:
                    v = body(self)
                    results.append(('ret', v, self.st))
                except ReturnSig as r:
                    results.append(('ret', r.value, self.st))
                except PyRaise as e:
                    results.append(('raise', e.exc, self.st))
                except PathCut:
                    results.append(('cut', None, self.st))
                except Infeasible:
                    if os.environ.get('VERIF_TRACE'):
                        import traceback
                        print('[infeasible path]', self.st.sig[-6:], 'script', self.script, 'trace', self.trace)
                except Restart:
                    restart = True
            finally:
                pass
            if restart:
                # same script prefix, but with a changed must_fork set: replay from the start
                script = [c for c, _ in self.trace]
                # drop the partial trace tail: everything recorded so far is a valid prefix
                continue
            tr = self.trace
            while tr and tr[-1][0] >= tr[-1][1] - 1:
                tr.pop()
            if not tr:
                break
            script = [c for c, _ in tr[:-1]] + [tr[-1][0] + 1]
        return results


def _empty_fact(cond):
    try:
        k = cond.decl().kind()
        if k in (z3.Z3_OP_LE, z3.Z3_OP_EQ) and cond.num_args() == 2:
            a, b = cond.arg(0), cond.arg(1)
            for x, y in ((a, b), (b, a)):
                if z3.is_app(x) and x.decl().kind() == z3.Z3_OP_SEQ_LENGTH and z3.is_int_value(y) \
                        and y.as_long() == 0 and (k == z3.Z3_OP_EQ or x is a):
                    s = x.arg(0)
                    return s == z3.Empty(s.sort())
        if k == z3.Z3_OP_NOT:
            inner = cond.arg(0)
            ik = inner.decl().kind()
            if ik in (z3.Z3_OP_GE, z3.Z3_OP_GT) and inner.num_args() == 2:
                x, y = inner.arg(0), inner.arg(1)
                if z3.is_app(x) and x.decl().kind() == z3.Z3_OP_SEQ_LENGTH and z3.is_int_value(y) \
                        and ((ik == z3.Z3_OP_GE and y.as_long() == 1) or (ik == z3.Z3_OP_GT and y.as_long() == 0)):
                    s = x.arg(0)
                    return s == z3.Empty(s.sort())
    except Exception:
        return None
    return None


_HQ = {}


def has_quantifier(t) -> bool:
    key = t.get_id()
    r = _HQ.get(key)
    if r is not None:
        return r[1]
    res = False
    stack = [t]
    seen = set()
    while stack:
        x = stack.pop()
        i = x.get_id()
        if i in seen:
            continue
        seen.add(i)
        if z3.is_quantifier(x):
            res = True
            break
        if z3.is_app(x):
            stack.extend(x.children())
    _HQ[key] = (t, res)
    return res


_ABS = {}


def _abs_cached(t):
    from . import recfuns
    k = t.get_id()
    r = _ABS.get(k)
    if r is None or not r[0].eq(t) or r[2] != len(recfuns.REC):
        r = (t, recfuns.abstract(t), len(recfuns.REC))
        _ABS[k] = r
    return r[1]
