"""Lemmas over spec functions.  Universally quantified parameters are fresh constants; an
induction lemma gets one obligation per case with hypotheses for the direct children only."""
from __future__ import annotations

import time
import traceback

import z3

from . import classtable
from .classtable import Ty, TNode, TSeq
from .contracts import LEMMAS, Lemma, parse_ty
from .core import Explorer
from .interp import Interp
from .values import SV, Untranslatable
from .verify import TaskResult, discharge


def _hint(it: Interp, lem: Lemma, env):
    if lem.hint is None:
        return
    params = [a.arg for a in lem.hint_node.args.args]
    it.eval_clause(lem.hint_node, dict(lem.hint.__globals__), {p: env[p] for p in params})


def _stmt(it: Interp, lem: Lemma, env):
    r = it.eval_clause(lem.node, lem.globs, env)
    return it.bterm(it.truth_term(r))


def _valid(e):
    """facts recorded while a statement was evaluated are usually tautologies about classes (is Unary => is Unary):
    those need not become antecedents of the quantified lemma"""
    from . import recfuns
    s = z3.Solver()
    s.set('timeout', 500)
    s.add(z3.Not(recfuns.abstract(e)))
    return s.check() == z3.unsat


def lemma_as_hypothesis(it: Interp, lem: Lemma):
    """ForAll params. statement   (for `uses=`); the statement must evaluate without forking"""
    ct = classtable.get_table()
    params = [a.arg for a in lem.node.args.args]
    tys = [parse_ty(lem.ann[p], ct) for p in params]
    consts = [z3.Const(f'{lem.name}!{p}', t.z3sort()) for p, t in zip(params, tys)]
    env = {p: SV(c, t) for p, c, t in zip(params, consts, tys)}
    it.ex.nofork += 1
    npc = len(it.ex.st.pc)
    try:
        t = _stmt(it, lem, env)
        extra = it.ex.st.pc[npc:]
        del it.ex.st.pc[npc:]
    finally:
        it.ex.nofork -= 1
    extra = [e for e in extra if not _valid(e)]
    if extra:
        t = z3.Implies(z3.And(*extra), t)
    pats = []
    if lem.patterns is not None:
        it.ex.nofork += 1
        try:
            pp = [a.arg for a in lem.patterns_node.args.args]
            r = it.eval_clause(lem.patterns_node, dict(lem.patterns.__globals__), {p: env[p] for p in pp})
        finally:
            it.ex.nofork -= 1
        del it.ex.st.pc[npc:]
        terms = [it.term(x, it.ty_of(x)) if not isinstance(x, SV) else x.term for x in (r if isinstance(r, tuple) else (r,))]
        terms = [t_.arg(0) if z3.is_not(t_) else t_ for t_ in terms]     # all(P) is represented as not any(not P)
        pats = [z3.MultiPattern(*terms) if len(terms) > 1 else terms[0]]
    return z3.ForAll(consts, t, patterns=pats) if pats else z3.ForAll(consts, t)


def prove_lemma(name, timeout_ms=15000) -> TaskResult:
    ct = classtable.get_table()
    lem = LEMMAS[name]
    res = TaskResult('lemma ' + name)
    t0 = time.time()
    res.lemmas_used = []
    if lem.axiom:
        res.axiom = (lem.fn.__doc__ or '').strip() or name
        return res
    try:
        params = [a.arg for a in lem.node.args.args]
        tys = {p: parse_ty(lem.ann[p], ct) for p in params}
        consts = {p: z3.Const(p, tys[p].z3sort()) for p in params}
        ex = Explorer()
        it = Interp(ex)
        it.fuv_name = 'lemma ' + name
        it.current_lemma = lem
        tag = lem.props[0] if lem.props else 'aux'
        ind = lem.induction_on

        def base_env():
            return {p: SV(consts[p], tys[p], oid=('param', p)) for p in params}

        def body(ex):
            for u in lem.uses:
                ex.assume(lemma_as_hypothesis(it, LEMMAS[u]))
            env = base_env()
            if ind is None:
                _hint(it, lem, env)
                it.obligation(f'lemma {name}', 'lemma', tag, _stmt(it, lem, env))
                return None
            ity = tys[ind]
            x = consts[ind]
            if isinstance(ity, TSeq):
                which = ex.choose([z3.Length(x) == 0, z3.Length(x) > 0], ['ind:empty', 'ind:cons'])
                if which == 1:
                    env2 = base_env()
                    env2[ind] = SV(z3.SubSeq(x, 1, z3.Length(x) - 1), ity)
                    hyp = hyp_term(it, lem, env2, params, ind, consts, lem)
                    ex.assume(hyp)
                _hint(it, lem, env)
                it.obligation(f'lemma {name}/{"cons" if which else "empty"}', 'lemma', tag, _stmt(it, lem, env))
                return None
            if isinstance(ity, TNode):
                cis = ct.sort_classes[ity.sort]
                conds = [ct.is_class(ci, x) for ci in cis]
                i = ex.choose(conds, [f'ind:{ci.name}' for ci in cis])
                ci = cis[i]
                it.restrict_class(env[ind], [ci])
                for f in ci.fields:
                    if f.ty == ity:
                        env2 = base_env()
                        env2[ind] = SV(ct.field(ci, f.name, x), ity)
                        ex.assume(hyp_term(it, lem, env2, params, ind, consts, lem))
                    elif isinstance(f.ty, TSeq) and f.ty.elem == ity:
                        j = z3.Int(f'j!{f.name}')
                        seq = ct.field(ci, f.name, x)
                        env2 = base_env()
                        env2[ind] = SV(seq[j], ity)
                        h = hyp_term(it, lem, env2, params, ind, consts, lem, extra_bound=[j])
                        ex.assume(z3.ForAll([j], z3.Implies(z3.And(j >= 0, j < z3.Length(seq)), h)))
                        # the same hypothesis in the form `all(statement(c) for c in seq)` that spec
                        # functions and list lemmas use (hash-consed comprehension function)
                        xe = z3.Const('comp!elem', ity.z3sort())
                        env3 = base_env()
                        env3[ind] = SV(xe, ity)
                        h3 = hyp_term(it, lem, env3, params, ind, consts, lem)
                        from .classtable import TBool as _TB
                        ex.assume(it.fused_fold(False, ('comp', h3, None, xe, ity, _TB(), seq)))
                _hint(it, lem, env)
                it.obligation(f'lemma {name}/{ci.name}', 'lemma', tag, _stmt(it, lem, env))
                return None
            raise Untranslatable(f'induction on {ity!r}')

        results = ex.explore(body)
        res.paths = len(results)
        res.obligations = it.obligations
        res.lemmas_used = sorted(it.lemmas_used)
    except Untranslatable as e:
        res.status = 'untranslatable'
        res.message = str(e)
    except Exception as e:
        res.status = 'error'
        res.message = f'{type(e).__name__}: {e}\n{traceback.format_exc()[-1500:]}'
    if res.status == 'ok':
        t1 = time.time()
        for ob in res.obligations:
            discharge(ob, timeout_ms)
        res.solver_time = time.time() - t1
    res.time = time.time() - t0
    return res


def hyp_term(it, lem, env2, params, ind, consts, lemma, extra_bound=()):
    """induction hypothesis: the statement at a direct child, for *all* values of the other
    parameters listed in `generalize` (none by default: same values)"""
    # facts assumed while evaluating the statement are instances of proved lemmas (hints) or
    # consequences of the path condition: they stay assumed, they are not antecedents of the hypothesis
    it.ex.nofork += 1
    try:
        t = _stmt(it, lem, env2)
    finally:
        it.ex.nofork -= 1
    gen = getattr(lemma.fn, '_generalize', ())
    if gen:
        t = z3.ForAll([consts[g] for g in gen], t)
    return t
