"""Interpreter helpers: lifting, truthiness, identity, equality, conversions."""
from __future__ import annotations

import enum
from typing import Any, List, Optional

import z3

from .classtable import (CT, Ty, TBool, TInt, TReal, TStr, TDT, TVal, TNode, TSeq, TSet, TOpt, TEnum, TMap,
                         DT_BITS)
from . import classtable
from .values import (MetaBox, SV, Rec, Box, Exc, BoundMethod, Closure, FunSym, Opaque, PyRaise, Untranslatable,
                     is_concrete)


class BaseMixin:
    # ---- class table access
    @property
    def ct(self):
        return classtable.CT

    # ---- fresh symbols
    def fresh(self, base, ty: Ty, **kw) -> SV:
        return SV(z3.Const(self.ex.fresh_name(base), ty.z3sort()), ty, **kw)

    def new_oid(self, what='obj'):
        return ('new', self.ex.fresh_name(what))

    # ---- lifting
    def ty_of(self, v) -> Optional[Ty]:
        if isinstance(v, SV):
            return v.ty
        if isinstance(v, Box):
            if v.kind == 'list' and v.elem is not None:
                return TSeq(v.elem)
            if v.kind == 'set' and v.elem is not None:
                return TSet(v.elem)
            return None
        if isinstance(v, tuple):
            tys = {repr(self.ty_of(x)): self.ty_of(x) for x in v}
            if len(tys) == 1 and None not in tys.values():
                return TSeq(next(iter(tys.values())))
            return None
        return self.ct.ty_of_object(v)

    def term(self, v, ty: Optional[Ty] = None):
        """z3 term for value v (optionally coerced to type ty)."""
        if isinstance(v, SV):
            if ty is not None and v.ty != ty:
                return self.coerce(v, ty).term
            return v.term
        if isinstance(v, Box):
            return self.box_term(v, ty)
        if isinstance(v, Rec):
            raise Untranslatable(f'object under construction {v} used as a value')
        if isinstance(v, (tuple, list)):
            if ty is None:
                ty = self.ty_of(tuple(v))
            if ty is None and len(v) == 0:
                raise Untranslatable('empty tuple of unknown element type')
            if ty is None:
                raise Untranslatable(f'heterogeneous tuple {v!r}')
            assert isinstance(ty, TSeq), ty
            es = [z3.Unit(self.term(x, ty.elem)) for x in v]
            if not es:
                return z3.Empty(ty.z3sort())
            return es[0] if len(es) == 1 else z3.Concat(*es)
        if ty is None:
            ty = self.ct.ty_of_object(v)
            if ty is None:
                raise Untranslatable(f'cannot lift {v!r}')
        if isinstance(ty, TOpt) and isinstance(v, SV):
            return v.term
        if isinstance(ty, TReal) and isinstance(v, bool):
            raise Untranslatable('bool as real')
        if isinstance(ty, TVal):
            return self.ct.lift_val(v)
        return self.ct.lift(v, ty)

    def coerce(self, v: SV, ty: Ty) -> SV:
        if v.ty == ty:
            return v
        if isinstance(ty, TOpt) and v.ty == ty.elem:
            return SV(self.ct.opt_some(ty.elem, v.term), ty, oid=v.oid, fresh=v.fresh)
        if isinstance(ty, TReal) and isinstance(v.ty, TInt):
            return SV(z3.ToReal(v.term), ty)
        if isinstance(v.ty, TOpt) and v.ty.elem == ty:
            # an Optional used where its value is needed: only when the path condition excludes None
            if self.ex.entails(z3.Not(self.ct.opt_is_none(ty, v.term))):
                return SV(self.ct.opt_the(ty, v.term), ty, oid=v.oid, fresh=v.fresh)
            raise Untranslatable(f'possibly-None value used as {ty!r}')
        if isinstance(ty, TVal):
            V = self.ct.Val
            if isinstance(v.ty, TBool):
                return SV(V.VBool(v.term), ty)
            if isinstance(v.ty, TInt):
                return SV(V.VInt(v.term), ty)
            if isinstance(v.ty, TReal):
                return SV(V.VFloat(v.term), ty)
            if isinstance(v.ty, TStr):
                return SV(V.VStr(v.term), ty)
        raise Untranslatable(f'cannot coerce {v.ty!r} to {ty!r}')

    def sv(self, v, ty: Optional[Ty] = None) -> SV:
        if isinstance(v, SV) and (ty is None or v.ty == ty):
            return v
        if ty is None:
            ty = self.ty_of(v)
            if ty is None:
                raise Untranslatable(f'cannot lift {v!r}')
        return SV(self.term(v, ty), ty)

    def box_term(self, b: Box, ty=None):
        if b.term is not None:
            return b.term
        if b.kind == 'list':
            ety = b.elem
            if ety is None:
                if ty is not None:
                    ety = ty.elem
                else:
                    t = self.ty_of(tuple(b.items))
                    if t is None:
                        raise Untranslatable('list of unknown element type')
                    ety = t.elem
            return self.term(tuple(b.items), TSeq(ety))
        if b.kind == 'set':
            ety = b.elem or (ty.elem if ty is not None else None)
            if ety is None:
                if not b.items:
                    raise Untranslatable('empty set of unknown element type')
                ety = self.ty_of(b.items[0])
            t = z3.EmptySet(ety.z3sort())
            for x in b.items:
                t = z3.SetAdd(t, self.term(x, ety))
            return t
        raise Untranslatable(f'box_term {b.kind}')

    def box_symbolize(self, b: Box, ty: Optional[Ty] = None):
        """switch a box from concrete items to a symbolic term (needed before havoc / symbolic ops)"""
        if b.term is not None:
            return
        if b.kind == 'list':
            t = self.box_term(b, ty)
            if b.elem is None:
                b.elem = ty.elem if ty is not None else self.ty_of(tuple(b.items)).elem
            b.term, b.items = t, None
        elif b.kind == 'set':
            if b.elem is None:
                if ty is not None:
                    b.elem = ty.elem
                elif b.items:
                    b.elem = self.ty_of(b.items[0])
                else:
                    raise Untranslatable('empty set of unknown element type')
            t = self.box_term(b, TSet(b.elem))
            b.term, b.items = t, None
        else:
            raise Untranslatable('symbolic dict')

    # ---- truthiness
    def truth_term(self, v):
        """z3 Bool / python bool for Python truthiness of v (no forking)"""
        if isinstance(v, SV):
            ty = v.ty
            if isinstance(ty, TBool):
                return v.term
            if isinstance(ty, TDT):
                return v.term != z3.BitVecVal(0, DT_BITS)
            if isinstance(ty, TInt):
                return v.term != 0
            if isinstance(ty, TReal):
                return v.term != 0
            if isinstance(ty, (TStr, TSeq)):
                return z3.Length(v.term) > 0
            if isinstance(ty, TOpt):
                nn = z3.Not(self.ct.opt_is_none(ty.elem, v.term))
                inner = self.truth_term(SV(self.ct.opt_the(ty.elem, v.term), ty.elem))
                if isinstance(inner, bool):
                    return nn if inner else False
                return z3.And(nn, inner)
            if isinstance(ty, (TNode, TEnum)):
                return True
            if isinstance(ty, TVal):
                V = self.ct.Val
                t = v.term
                return z3.If(V.is_VBool(t), V.vbool(t),
                             z3.If(V.is_VInt(t), V.vint(t) != 0,
                                   z3.If(V.is_VFloat(t), V.vfloat(t) != 0, z3.Length(V.vstr(t)) > 0)))
            if isinstance(ty, TSet):
                return v.term != z3.EmptySet(ty.elem.z3sort())
            raise Untranslatable(f'truthiness of {ty!r}')
        if isinstance(v, Box):
            if v.term is None:
                return len(v.items) > 0
            if v.kind == 'list':
                return z3.Length(v.term) > 0
            if v.kind == 'set':
                return v.term != z3.EmptySet(v.elem.z3sort())
        if isinstance(v, (Rec, Exc, BoundMethod, Closure, FunSym)):
            return True
        if isinstance(v, Opaque):
            raise Untranslatable('truthiness of opaque value')
        return bool(v)

    def truth(self, v, label='') -> bool:
        return self.ex.branch(self.truth_term(v), label)

    # ---- identity and equality
    def identical(self, a, b):
        """`a is b` as python bool or z3 Bool."""
        if isinstance(a, SV) and isinstance(b, SV):
            if isinstance(a.ty, TNode) and a.ty == b.ty:
                if a.oid is not None and a.oid == b.oid:
                    return True
                if a.fresh or b.fresh:
                    # a fresh object is never an older object, and two fresh objects differ
                    return False
                if a.term.eq(b.term):
                    return True
                return self.same_rel(a, b)
            if isinstance(a.ty, TOpt) or isinstance(b.ty, TOpt):
                return self.equal(a, b)
            if isinstance(a.ty, (TBool, TEnum, TDT)) and a.ty == b.ty:
                return a.term == b.term
            if a.ty != b.ty:
                if isinstance(a.ty, TNode) and isinstance(b.ty, TNode):
                    return False
            return self.equal(a, b)
        if isinstance(a, SV) or isinstance(b, SV):
            s, c = (a, b) if isinstance(a, SV) else (b, a)
            if c is None or type(c).__name__ == '_Nothing':
                # attrs' NOTHING sentinel ("argument not given") is modelled as the None of an optional parameter
                if isinstance(s.ty, TOpt):
                    return self.ct.opt_is_none(s.ty.elem, s.term)
                return False
            if isinstance(c, (bool, enum.Enum)) or c is None:
                if isinstance(s.ty, TVal) and isinstance(c, bool):
                    V = self.ct.Val
                    return s.term == V.VBool(z3.BoolVal(c))
                if isinstance(s.ty, TOpt):
                    inner = SV(self.ct.opt_the(s.ty.elem, s.term), s.ty.elem)
                    r = self.identical(inner, c)
                    nn = z3.Not(self.ct.opt_is_none(s.ty.elem, s.term))
                    return z3.And(nn, r) if not isinstance(r, bool) else (nn if r else False)
                tyc = self.ty_of(c)
                if tyc is not None and tyc == s.ty:
                    return s.term == self.term(c, tyc)
                return False
            if isinstance(s.ty, TNode):
                if s.fresh:
                    return False
                tyc = self.ty_of(c)
                if tyc != s.ty:
                    return False
                # identity with a pre-existing concrete object: undetermined
                return self.same_rel(s, SV(self.term(c, tyc), tyc, oid=('py', id(c))))
            return False
        if isinstance(a, (Rec, Box, MetaBox)) or isinstance(b, (Rec, Box, MetaBox)):
            return a is b
        return a is b

    def same_rel(self, a: SV, b: SV):
        srt = a.ty.z3sort()
        f = z3.Function(f'same_{a.ty!r}', srt, srt, z3.BoolSort())
        # same(x,y) => x == y ; recorded as a path fact when used
        t = f(a.term, b.term)
        self.ex.assume(z3.Implies(t, a.term == b.term))
        self.ex.assume(t == f(b.term, a.term))
        return t

    def equal(self, a, b):
        """python == as python bool or z3 Bool (attrs structural equality on nodes)."""
        if isinstance(a, SV) or isinstance(b, SV):
            if isinstance(a, SV) and isinstance(b, SV):
                if a.ty == b.ty:
                    return a.term == b.term
                if isinstance(a.ty, TOpt) and a.ty.elem == b.ty:
                    return a.term == self.ct.opt_some(b.ty, b.term)
                if isinstance(b.ty, TOpt) and b.ty.elem == a.ty:
                    return b.term == self.ct.opt_some(a.ty, a.term)
                if isinstance(a.ty, (TInt, TReal)) and isinstance(b.ty, (TInt, TReal)):
                    return self.num_term(a) == self.num_term(b)
                if isinstance(a.ty, TVal) or isinstance(b.ty, TVal):
                    return self.val_equal(a, b)
                if isinstance(a.ty, TNode) and isinstance(b.ty, TNode):
                    return False
                raise Untranslatable(f'== between {a.ty!r} and {b.ty!r}')
            s, c = (a, b) if isinstance(a, SV) else (b, a)
            if isinstance(c, (Box, Rec)):
                if isinstance(c, Box):
                    return s.term == self.box_term(c, s.ty)
                return False
            if c is None:
                if isinstance(s.ty, TOpt):
                    return self.ct.opt_is_none(s.ty.elem, s.term)
                return False
            if isinstance(s.ty, TOpt):
                try:
                    tc = self.term(c, s.ty.elem)
                except (Untranslatable, TypeError, AssertionError, KeyError):
                    return False
                return s.term == self.ct.opt_some(s.ty.elem, tc)
            if isinstance(s.ty, TVal):
                return self.val_equal(s, c)
            if isinstance(s.ty, TInt) and isinstance(c, int) and not isinstance(c, bool):
                return s.term == z3.IntVal(c)
            if isinstance(s.ty, (TInt, TReal)) and isinstance(c, (int, float)):
                return self.num_term(s) == self.num_term(c)
            try:
                tc = self.term(c, s.ty)
            except (Untranslatable, TypeError, AssertionError, KeyError, AttributeError):
                return False
            return s.term == tc
        if isinstance(a, Box) or isinstance(b, Box):
            if isinstance(a, Box) and isinstance(b, Box) and a.term is None and b.term is None:
                if a.kind != b.kind:
                    return False
                if a.kind == 'list' and len(a.items) == len(b.items):
                    rs = [self.equal(x, y) for x, y in zip(a.items, b.items)]
                    return self.conj(rs)
            ta = self.term(a)
            tb = self.term(b)
            return ta == tb
        if isinstance(a, tuple) and isinstance(b, tuple):
            if len(a) != len(b):
                return False
            return self.conj([self.equal(x, y) for x, y in zip(a, b)])
        return a == b

    def conj(self, rs):
        out = []
        for r in rs:
            if isinstance(r, bool):
                if not r:
                    return False
            else:
                out.append(r)
        if not out:
            return True
        return out[0] if len(out) == 1 else z3.And(*out)

    def disj(self, rs):
        out = []
        for r in rs:
            if isinstance(r, bool):
                if r:
                    return True
            else:
                out.append(r)
        if not out:
            return False
        return out[0] if len(out) == 1 else z3.Or(*out)

    def neg(self, r):
        return (not r) if isinstance(r, bool) else z3.Not(r)

    def bterm(self, r):
        return z3.BoolVal(r) if isinstance(r, bool) else r

    # ---- numbers
    def num_term(self, v):
        if isinstance(v, SV):
            if isinstance(v.ty, TInt):
                return z3.ToReal(v.term)
            if isinstance(v.ty, TReal):
                return v.term
            if isinstance(v.ty, TBool):
                return z3.If(v.term, z3.RealVal(1), z3.RealVal(0))
            raise Untranslatable(f'number from {v.ty!r}')
        if isinstance(v, bool):
            return z3.RealVal(1 if v else 0)
        if isinstance(v, int):
            return z3.RealVal(v)
        if isinstance(v, float):
            return self.ct.lift(v, TReal())
        raise Untranslatable(f'number from {v!r}')

    def val_equal(self, a, b):
        """Python == on literal payloads (bool/int/float/str), with True == 1 (A-BOOLINT)."""
        V = self.ct.Val

        def parts(x):
            # returns (is_num cond, num term, is_str cond, str term)
            if isinstance(x, SV):
                if isinstance(x.ty, TVal):
                    t = x.term
                    isnum = z3.Not(V.is_VStr(t))
                    num = z3.If(V.is_VBool(t), z3.If(V.vbool(t), z3.RealVal(1), z3.RealVal(0)),
                                z3.If(V.is_VInt(t), z3.ToReal(V.vint(t)), V.vfloat(t)))
                    return isnum, num, V.is_VStr(t), V.vstr(t)
                if isinstance(x.ty, TStr):
                    return False, z3.RealVal(0), True, x.term
                return True, self.num_term(x), False, z3.StringVal('')
            if isinstance(x, str):
                return False, z3.RealVal(0), True, z3.StringVal(x)
            if isinstance(x, (bool, int, float)):
                return True, self.num_term(x), False, z3.StringVal('')
            return None
        pa, pb = parts(a), parts(b)
        if pa is None or pb is None:
            return False
        both_num = self.conj([pa[0], pb[0]])
        both_str = self.conj([pa[2], pb[2]])
        r = self.disj([self.conj([both_num, pa[1] == pb[1]]), self.conj([both_str, pa[3] == pb[3]])])
        return r
