"""Discharge ladder: z3 (short) -> cvc5 CLI on the SMT-LIB export (sequence reasoning) -> z3 (long).
`unsat` from either back end discharges; `sat` is only believed with a z3 model."""
from __future__ import annotations

import os
import re
import subprocess
import tempfile
import time

import z3

CVC5 = '/usr/bin/cvc5'
_SK = [0]


def pointwise(goal):
    """set equalities in positive position become membership equivalence at a fresh element
    (extensionality): proves the same goal, without array-extensionality reasoning in the solver"""
    if z3.is_and(goal):
        return z3.And(*[pointwise(c) for c in goal.children()])
    if z3.is_implies(goal):
        return z3.Implies(goal.arg(0), pointwise(goal.arg(1)))
    if z3.is_eq(goal) and isinstance(goal.arg(0).sort(), z3.ArraySortRef) and goal.arg(0).sort().range() == z3.BoolSort():
        _SK[0] += 1
        x = z3.Const(f'elem!sk{_SK[0]}', goal.arg(0).sort().domain())
        return z3.Select(goal.arg(0), x) == z3.Select(goal.arg(1), x)
    return goal


def to_cvc5_text(solver: z3.Solver):
    txt = solver.to_smt2()
    txt = re.sub(r'\(_ ([^\s()]+) 0\)', r'\1', txt)
    # z3's simplifier splits nth into an in-range and an out-of-range symbol; both are seq.nth
    txt = txt.replace('seq.nth_i', 'seq.nth').replace('seq.nth_u', 'seq.nth')
    txt = txt.replace('(set-info :status unknown)', '(set-logic ALL)')
    if '(check-sat)' not in txt:
        txt += '\n(check-sat)\n'
    return reorder_sort_declarations(txt)


def _top_level(txt):
    """split SMT-LIB text into top-level s-expressions (strings and |symbols| respected)"""
    out, depth, start, i, n = [], 0, None, 0, len(txt)
    while i < n:
        c = txt[i]
        if c == ';' and depth == 0:
            j = txt.find('\n', i)
            i = n if j < 0 else j
            continue
        if c == '"':
            i += 1
            while i < n:
                if txt[i] == '"':
                    if i + 1 < n and txt[i + 1] == '"':
                        i += 2
                        continue
                    break
                i += 1
        elif c == '|':
            i = txt.find('|', i + 1)
        elif c == '(':
            if depth == 0:
                start = i
            depth += 1
        elif c == ')':
            depth -= 1
            if depth == 0:
                out.append(txt[start:i + 1])
        i += 1
    return out


def reorder_sort_declarations(txt):
    """z3 may print a datatype after another one that uses it (e.g. Val after Expr); cvc5 wants definitions first"""
    cmds = _top_level(txt)
    decl_idx = [i for i, c in enumerate(cmds) if c.startswith('(declare-datatypes') or c.startswith('(declare-sort')]
    if len(decl_idx) < 2:
        return txt
    decls = [cmds[i] for i in decl_idx]
    names = []
    for d in decls:
        if d.startswith('(declare-sort'):
            names.append([d.split()[1]])
        else:
            head = d[len('(declare-datatypes'):]
            # ((A 0) (B 0)) ...
            depth, j = 0, 0
            for j, ch in enumerate(head):
                if ch == '(':
                    depth += 1
                elif ch == ')':
                    depth -= 1
                    if depth == 0:
                        break
            names.append(re.findall(r'\(\s*([^\s()]+)\s+\d+\s*\)', head[:j + 1]))
    order, placed = [], set()
    remaining = list(range(len(decls)))
    while remaining:
        progressed = False
        for k in list(remaining):
            others = [nm for m in remaining if m != k for nm in names[m]]
            toks = set(re.findall(r'[^\s()]+', decls[k]))
            if not any(nm in toks for nm in others):
                order.append(k)
                remaining.remove(k)
                progressed = True
        if not progressed:
            order.extend(remaining)
            break
    first = decl_idx[0]
    rest = [c for i, c in enumerate(cmds) if i not in set(decl_idx)]
    new = rest[:first] + [decls[k] for k in order] + rest[first:]
    return '\n'.join(new) + '\n'


UNSUPPORTED = ('(as union', 'setminus', '(as intersection', '(lambda ', '(_ map', 'subset', 'str.from_code')


class Cvc5Job:
    """cvc5 on the SMT-LIB export of a solver, running beside the z3 attempts"""

    def __init__(self, solver, timeout_ms, label):
        self.label = label
        self.proc = None
        self.path = None
        self.result = None
        self.deadline = time.time() + timeout_ms / 1000 + 5
        if not os.path.exists(CVC5):
            self.result = 'unsupported'
            return
        try:
            txt = to_cvc5_text(solver)
        except z3.Z3Exception:
            self.result = 'unsupported'
            return
        if any(u in txt for u in UNSUPPORTED):
            self.result = 'unsupported'
            return
        fd, self.path = tempfile.mkstemp(suffix='.smt2', prefix='pyvc_')
        with os.fdopen(fd, 'w') as f:
            f.write(txt)
        self.proc = subprocess.Popen([CVC5, '--dt-nested-rec', '--strings-exp', f'--tlimit={int(timeout_ms)}', self.path],
                                     stdout=subprocess.PIPE, stderr=subprocess.PIPE, text=True)

    def poll(self, wait=False):
        """the answer if available (waits up to the deadline when wait=True), else None"""
        if self.result is not None:
            return self.result
        try:
            if wait:
                out, err = self.proc.communicate(timeout=max(0.1, self.deadline - time.time()))
            else:
                if self.proc.poll() is None:
                    if time.time() > self.deadline:
                        self.kill()
                        self.result = 'unknown'
                    return self.result
                out, err = self.proc.communicate()
        except subprocess.TimeoutExpired:
            self.kill()
            self.result = 'unknown'
            return self.result
        lines = out.strip().splitlines()
        if lines and lines[0] in ('unsat', 'sat', 'unknown'):
            self.result = lines[0]
        elif 'timeout' in (out + err) or 'interrupted' in (out + err):
            self.result = 'unknown'
        else:
            self.result = 'unsupported'
        self._cleanup()
        return self.result

    def kill(self):
        if self.proc is not None and self.proc.poll() is None:
            try:
                self.proc.kill()
                self.proc.communicate(timeout=5)
            except Exception:
                pass
        self._cleanup()

    def _cleanup(self):
        if self.path:
            try:
                os.unlink(self.path)
            except OSError:
                pass
            self.path = None


def run_cvc5(solver: z3.Solver, timeout_ms):
    """returns 'unsat' | 'sat' | 'unknown' | 'unsupported'"""
    if not os.path.exists(CVC5):
        return 'unsupported'
    try:
        txt = to_cvc5_text(solver)
    except z3.Z3Exception:
        return 'unsupported'
    if any(u in txt for u in UNSUPPORTED):
        return 'unsupported'
    fd, path = tempfile.mkstemp(suffix='.smt2', prefix='pyvc_')
    try:
        with os.fdopen(fd, 'w') as f:
            f.write(txt)
        try:
            p = subprocess.run([CVC5, '--dt-nested-rec', '--strings-exp', f'--tlimit={timeout_ms}', path],
                               capture_output=True, text=True, timeout=timeout_ms / 1000 + 5)
        except subprocess.TimeoutExpired:
            return 'unknown'
        out = p.stdout.strip().splitlines()
        if out and out[0] in ('unsat', 'sat', 'unknown'):
            return out[0]
        if 'timeout' in (p.stdout + p.stderr) or 'interrupted' in (p.stdout + p.stderr):
            return 'unknown'
        return 'unsupported'
    finally:
        try:
            os.unlink(path)
        except OSError:
            pass


def _has_quantifier(t, _seen=None):
    seen = set() if _seen is None else _seen
    stack = [t]
    while stack:
        x = stack.pop()
        if x.get_id() in seen:
            continue
        seen.add(x.get_id())
        if z3.is_quantifier(x):
            return True
        if z3.is_app(x):
            stack.extend(x.children())
    return False


def discharge(ob, timeout_ms):
    t0 = time.time()
    goal = ob.goal
    if isinstance(goal, bool):
        goal = z3.BoolVal(goal)
    goal = pointwise(goal)

    from . import recfuns

    def z3_try(tmo, opts=None, mode='full', depth=0):
        s = z3.Solver()
        s.set('timeout', int(tmo))
        for k, v in (opts or {}).items():
            s.set(k, v)
        neg = z3.Not(goal)
        if mode == 'full':
            s.add(*ob.hyps)
            s.add(neg)
        else:
            fs = list(ob.hyps) + [neg]
            if mode == 'abs':
                fs = fs + recfuns.fuel(fs, depth)
            else:
                # goal-directed: deep from the goal, one round from the hypotheses
                fs = fs + recfuns.fuel(list(ob.hyps), depth + 2, goal=neg, hyp_depth=1)
            for f in fs:
                s.add(recfuns.abstract(f))
        r = s.check()
        return r, s

    ladder = []
    r = z3.unknown
    s = None
    # 1-2: abstraction with bounded unfolding (unsat there is unsat; sat there proves nothing)
    # z3 on the three abstractions; cvc5 runs beside it on every abstraction z3 left undecided
    jobs = []

    def done_by(job_or_none, backend):
        for j in jobs:
            if j is not job_or_none:
                j.kill()
        ob.status, ob.backend = 'discharged', backend
        ob.time = time.time() - t0
        ob.ladder = ladder
        return ob

    def cvc5_won(wait=False):
        for j in jobs:
            c = j.poll(wait)
            if c is not None and not getattr(j, 'logged', False):
                j.logged = True
                ladder.append(f'cvc5-{j.label}:{c}')
            if c == 'unsat':
                return j
        return None

    for depth, tmo, mode_ in ((1, 1500, 'abs'), (2, 4000, 'goal'), (3, 4000, 'abs')):
        ra, sa = z3_try(min(timeout_ms, tmo), mode=mode_, depth=depth)
        ladder.append(f'{mode_}{depth}:{ra}')
        if ra == z3.unsat:
            return done_by(None, f'z3(fuel={depth})')
        j = cvc5_won()
        if j is not None:
            return done_by(j, f'cvc5({j.label})')
        if ra == z3.unknown:
            jobs.append(Cvc5Job(sa, min(timeout_ms, 15000), f'{mode_}{depth}'))
    j = cvc5_won(wait=True)
    if j is not None:
        return done_by(j, f'cvc5({j.label})')
    for j in jobs:
        j.kill()
    r, s = z3_try(min(timeout_ms, 2500))
    ladder.append(f'z3:{r}')
    if r == z3.unknown:
        c = run_cvc5(s, min(timeout_ms, 20000))
        ladder.append(f'cvc5:{c}')
        if c == 'unsat':
            ob.status, ob.backend = 'discharged', 'cvc5'
            ob.time = time.time() - t0
            ob.ladder = ladder
            return ob
        r, s = z3_try(timeout_ms, {'smt.random_seed': 7})
        ladder.append(f'z3-long:{r}')
    if r == z3.unsat:
        ob.status, ob.backend = 'discharged', 'z3'
    elif r == z3.sat:
        ob.status, ob.backend = 'refuted', 'z3'
        try:
            ob.model = s.model()
        except z3.Z3Exception:
            ob.model = None
    else:
        ob.status, ob.backend = 'unknown', 'z3+cvc5'
        # last resort for a counterexample: without the quantified hypotheses (auto lemmas, valuations) the query is
        # ground and z3 can produce a model; it satisfies fewer hypotheses, so it is only a *candidate*: the caller
        # replays it on the real code and keeps it only if the real code violates the contract on it
        ground = [h for h in ob.hyps if not _has_quantifier(h)]
        if len(ground) != len(ob.hyps) and not _has_quantifier(goal):
            sg = z3.Solver()
            sg.set('timeout', int(min(timeout_ms, 5000)))
            fs = ground + [z3.Not(goal)]
            for f in fs + recfuns.fuel(fs, 2):
                sg.add(recfuns.abstract(f))
            rg = sg.check()
            ladder.append(f'z3-ground:{rg}')
            if rg == z3.sat:
                try:
                    ob.model = sg.model()
                    ob.status, ob.backend = 'refuted', 'z3 (candidate model, quantified hypotheses dropped)'
                    ob.candidate = True
                except z3.Z3Exception:
                    ob.model = None
    ob.time = time.time() - t0
    ob.ladder = ladder
    return ob
