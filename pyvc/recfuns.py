"""Registry of the recursive functions defined in the z3 context (spec functions, comprehension and fold
functions) with their bodies, an uninterpreted twin for each, and fuel-limited unfolding.

Proof attempts first run on the *abstraction*: every recursive function replaced by its uninterpreted twin
plus a bounded number of definitional instances  f(args) == body[args]  (each valid by definition).
Whatever is unsatisfiable under fewer axioms is unsatisfiable; z3's own unbounded unfolding of asserted
recursive predicates over algebraic datatypes otherwise starves even propositional conflicts."""
from __future__ import annotations

from typing import Any, Dict, List

import os

import z3

REC: Dict[int, Any] = {}      # decl id -> (decl, params, body, twin)


def declare(f):
    """register a recursive function as soon as it is declared: z3 answers `unsat` to any query that
    mentions a RecFunction whose definition has not been added yet, so until then (i.e. while its own body
    is being translated) every query must see the uninterpreted twin instead"""
    if f.get_id() not in REC:
        twin = z3.Function(f.name() + '!abs', *[f.domain(i) for i in range(f.arity())], f.range())
        REC[f.get_id()] = (f, None, None, twin)
    return f


def define(f, params, body):
    z3.RecAddDefinition(f, params, body)
    old = REC.get(f.get_id())
    twin = old[3] if old else z3.Function(f.name() + '!abs', *[f.domain(i) for i in range(f.arity())], f.range())
    REC[f.get_id()] = (f, list(params), body, twin)
    return f


_ABS_CACHE: Dict[Any, Any] = {}


def abstract(t):
    if not REC:
        return t
    if os.environ.get('VERIF_NO_ABS_CACHE'):
        return _abstract(t)
    key = (t.get_id(), len(REC))
    hit = _ABS_CACHE.get(key)
    if hit is not None and hit[0].eq(t):
        return hit[1]
    r = _abstract(t)
    if len(_ABS_CACHE) > 200000:
        _ABS_CACHE.clear()
    _ABS_CACHE[key] = (t, r)
    return r


def _abstract(t):
    if z3.is_quantifier(t) and t.num_patterns() > 0:
        # substitute_funs does not rewrite trigger annotations: rebuild the quantifier with abstracted triggers
        cs = [z3.Const(f'{t.var_name(i)}', t.var_sort(i)) for i in range(t.num_vars())]
        inst = lambda x: z3.substitute_vars(x, *reversed(cs))   # noqa: E731
        body = abstract(inst(t.body()))
        pats = []
        for i in range(t.num_patterns()):
            terms = [abstract(inst(c)) for c in t.pattern(i).children()]
            pats.append(z3.MultiPattern(*terms) if len(terms) > 1 else terms[0])
        return z3.ForAll(cs, body, patterns=pats) if t.is_forall() else z3.Exists(cs, body, patterns=pats)
    subs = []
    for f, params, body, twin in REC.values():
        vs = [z3.Var(i, f.domain(i)) for i in range(f.arity())]
        subs.append((f, twin(*vs) if vs else twin()))
    return z3.substitute_funs(t, *subs)


def applications(terms):
    """applications of registered recursive functions occurring in terms (outside quantifier bodies)"""
    out = []
    seen = set()
    stack = list(terms)
    while stack:
        t = stack.pop()
        i = t.get_id()
        if i in seen:
            continue
        seen.add(i)
        if z3.is_quantifier(t):
            continue
        if z3.is_app(t):
            if t.decl().get_id() in REC:
                out.append(t)
            stack.extend(t.children())
    return out


def instance(app):
    f, params, body, twin = REC[app.decl().get_id()]
    if body is None:
        return None
    return app == z3.substitute(body, *zip(params, app.children()))


def _ground_env_terms(terms, seen):
    """ground terms of an uninterpreted sort (valuations) outside binders"""
    out = []
    stack = list(terms)
    while stack:
        t = stack.pop()
        i = t.get_id()
        if i in seen:
            continue
        seen.add(i)
        if z3.is_quantifier(t):
            continue
        if z3.is_app(t):
            if t.sort().kind() == z3.Z3_UNINTERPRETED_SORT and not z3.is_var(t):
                out.append(t)
            stack.extend(t.children())
    return out


def _is_env_forall(t):
    return z3.is_quantifier(t) and t.is_forall() and t.num_vars() == 1 \
        and t.var_sort(0).kind() == z3.Z3_UNINTERPRETED_SORT


def _has_pos_env_forall(t):
    if _is_env_forall(t):
        return True
    if z3.is_quantifier(t) or not z3.is_app(t):
        return False
    if z3.is_and(t) or z3.is_or(t):
        return any(_has_pos_env_forall(c) for c in t.children())
    if z3.is_implies(t):
        return _has_pos_env_forall(t.arg(1))
    return False


def _inst_pos(t, g):
    """t with every positively occurring  ForAll rho: Env. B  replaced by B[g]  (implied by t)"""
    if _is_env_forall(t):
        return _inst_pos(z3.substitute_vars(t.body(), g), g) if t.var_sort(0).eq(g.sort()) else t
    if z3.is_quantifier(t) or not z3.is_app(t):
        return t
    if z3.is_and(t):
        return z3.And(*[_inst_pos(c, g) for c in t.children()])
    if z3.is_or(t):
        return z3.Or(*[_inst_pos(c, g) for c in t.children()])
    if z3.is_implies(t):
        return z3.Implies(t.arg(0), _inst_pos(t.arg(1), g))
    return t


def env_quantified(terms):
    """hypotheses with a positively occurring universal quantification over valuations only
    (ForAll rho: Env. body, possibly under and / or / the right of an implication), or defining a predicate as one
    (ForAll(...) == p): instantiated eagerly at the ground valuations in sight, so that the definitional
    instances of the spec functions applied to them can be generated.  Returns (formula, instantiate(g))."""
    out = []
    for t in terms:
        if _has_pos_env_forall(t):
            out.append((t, lambda g, t=t: _inst_pos(t, g)))
            continue
        q = None
        if z3.is_eq(t) and _is_env_forall(t.arg(0)):
            q, p = t.arg(0), t.arg(1)
        elif z3.is_eq(t) and _is_env_forall(t.arg(1)):
            q, p = t.arg(1), t.arg(0)
        if q is not None:
            out.append((t, lambda g, q=q, p=p: z3.Implies(p, z3.substitute_vars(q.body(), g))
                        if q.var_sort(0).eq(g.sort()) else None))
    return out


def fuel(terms, depth, limit=150, goal=None, hyp_depth=None, hyp_limit=80):
    """definitional instances for the applications in terms, `depth` rounds (each round also instantiates the
    valuation-quantified hypotheses at the ground valuations that have appeared).

    With `goal` given the unfolding is goal-directed: the applications that descend from the (negated) goal and from
    the valuation instances are unfolded `depth` rounds (budget `limit`); those that occur only in the hypotheses
    `hyp_depth` rounds (default 1, budget `hyp_limit`): the big specs in the hypotheses (wt, ...) otherwise eat the budget"""
    insts = []
    done = set()
    envq = env_quantified(terms if goal is None else list(terms) + [goal])
    env_seen = set()
    env_done = set()

    def rounds(frontier, depth, limit, with_env):
        count = 0
        for _ in range(depth):
            new = []
            if envq and with_env:
                for g in _ground_env_terms(frontier, env_seen):
                    for q, mk in envq:
                        k = (q.get_id(), g.get_id())
                        if k in env_done:
                            continue
                        env_done.add(k)
                        inst = mk(g)
                        if inst is None:
                            continue
                        insts.append(inst)
                        new.append(inst)
            frontier = frontier + new
            for app in applications(frontier):
                if app.get_id() in done:
                    continue
                done.add(app.get_id())
                e = instance(app)
                if e is None:
                    continue
                insts.append(e)
                new.append(e)
                count += 1
                if count >= limit:
                    return
            if not new:
                break
            frontier = new

    if goal is None:
        rounds(list(terms), depth, limit, True)
    else:
        rounds([goal], depth, limit, True)
        rounds(list(terms), 1 if hyp_depth is None else hyp_depth, hyp_limit, True)
    return insts


def bool_simplify(t, sort_args=True):
    """light propositional normalisation (no theory rewriting): singleton And/Or, constants, double negation"""
    if not z3.is_app(t) or not z3.is_bool(t):
        return t
    if z3.is_not(t):
        a = bool_simplify(t.arg(0), sort_args)
        if z3.is_not(a):
            return a.arg(0)
        if z3.is_true(a):
            return z3.BoolVal(False)
        if z3.is_false(a):
            return z3.BoolVal(True)
        return z3.Not(a)
    if z3.is_and(t) or z3.is_or(t):
        is_and = z3.is_and(t)
        out = []
        seen = set()
        for c in t.children():
            c = bool_simplify(c, sort_args)
            if z3.is_true(c):
                if is_and:
                    continue
                return z3.BoolVal(True)
            if z3.is_false(c):
                if is_and:
                    return z3.BoolVal(False)
                continue
            if (z3.is_and(c) and is_and) or (z3.is_or(c) and not is_and):
                for cc in c.children():
                    if cc.get_id() not in seen:
                        seen.add(cc.get_id())
                        out.append(cc)
                continue
            if c.get_id() not in seen:
                seen.add(c.get_id())
                out.append(c)
        if not out:
            return z3.BoolVal(is_and)
        if len(out) == 1:
            return out[0]
        if sort_args:
            out.sort(key=lambda c: c.sexpr())      # canonical argument order (And/Or are commutative)
        return z3.And(*out) if is_and else z3.Or(*out)
    return t
