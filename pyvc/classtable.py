"""Class table: the live attrs classes of /repo become z3 algebraic datatypes.

Built on every run from the *imported* working tree (PYTHONPATH=/repo/src).
Nothing about the classes is hard-coded here except
  * which classes are sort roots (a family of classes sharing one z3 sort), and
  * which classes are abstract by convention (never instantiated directly);
both lists are checked against the source on each run (see `check_assumptions`).
"""
from __future__ import annotations

import enum
import importlib
import inspect
import sys
import typing
from typing import Any, Dict, List, Optional, Tuple

import attrs
import z3

REPO_MODULES = [
    'hpl.types', 'hpl.errors', 'hpl.ast.base', 'hpl.ast.expressions', 'hpl.ast.predicates',
    'hpl.ast.events', 'hpl.ast.properties', 'hpl.ast.specs',
]

# sort name -> root class name.  A class belongs to the first root found in its MRO.
SORT_ROOTS = [
    ('Expr', 'HplExpression'), ('Pred', 'HplPredicate'), ('Event', 'HplEvent'),
    ('Scope', 'HplScope'), ('Pattern', 'HplPattern'), ('Property', 'HplProperty'),
    ('Spec', 'HplSpecification'), ('TypeTok', 'TypeToken'),
    ('OpDef1', 'UnaryOperatorDefinition'), ('OpDef2', 'BinaryOperatorDefinition'),
    ('FunSig', 'FunctionSignature'), ('FunDef', 'FunctionDefinition'),
]
ABSTRACT = {'HplAstObject', 'HplExpression', 'HplValue', 'HplAtomicValue', 'HplDataAccess',
            'HplPredicate', 'HplEvent'}

DT_BITS = 7


###############################################################################
# type descriptors
###############################################################################

class Ty:
    def z3sort(self):
        raise NotImplementedError

    def __eq__(self, other):
        return type(self) is type(other) and self.__dict__ == other.__dict__

    def __hash__(self):
        return hash((type(self).__name__, tuple(sorted((k, repr(v)) for k, v in self.__dict__.items()))))

    def __repr__(self):
        return type(self).__name__[1:]


class TBool(Ty):
    def z3sort(self):
        return z3.BoolSort()


class TInt(Ty):
    def z3sort(self):
        return z3.IntSort()


class TReal(Ty):
    def z3sort(self):
        return z3.RealSort()


class TStr(Ty):
    def z3sort(self):
        return z3.StringSort()


class TDT(Ty):
    """hpl.types.DataType (7-flag enum.Flag) as a bit-vector (assumption A-FLAG)."""

    def z3sort(self):
        return z3.BitVecSort(DT_BITS)


class TVal(Ty):
    """literal payload Union[bool, int, float, str] / Any."""

    def z3sort(self):
        return CT.Val


class TAbs(Ty):
    """an abstract (uninterpreted) sort of the specification level, e.g. Env - the valuations of the
    reference semantics; nothing is known about its elements except through opaque spec functions."""
    _sorts = {}

    def __init__(self, name: str):
        self.name = name

    def z3sort(self):
        if self.name not in TAbs._sorts:
            TAbs._sorts[self.name] = z3.DeclareSort(self.name)
        return TAbs._sorts[self.name]

    def __repr__(self):
        return self.name


ABSTRACT_SORTS = ('Env',)


class TNode(Ty):
    """a value of an attrs class family (AST node or definition record)."""

    def __init__(self, sort: str):
        self.sort = sort

    def z3sort(self):
        return CT.sorts[self.sort]

    def __repr__(self):
        return self.sort


class TSeq(Ty):
    def __init__(self, elem: Ty):
        self.elem = elem

    def z3sort(self):
        return z3.SeqSort(self.elem.z3sort())

    def __repr__(self):
        return f'Seq[{self.elem!r}]'


class TSet(Ty):
    def __init__(self, elem: Ty):
        self.elem = elem

    def z3sort(self):
        return z3.SetSort(self.elem.z3sort())

    def __repr__(self):
        return f'Set[{self.elem!r}]'


class TOpt(Ty):
    def __init__(self, elem: Ty):
        self.elem = elem

    def z3sort(self):
        return CT.option_sort(self.elem)

    def __repr__(self):
        return f'Opt[{self.elem!r}]'


class TEnum(Ty):
    def __init__(self, pyenum):
        self.pyenum = pyenum

    def z3sort(self):
        return CT.enum_sort(self.pyenum)[0]

    def __repr__(self):
        return f'Enum[{self.pyenum.__name__}]'

    def __eq__(self, other):
        return isinstance(other, TEnum) and other.pyenum is self.pyenum

    def __hash__(self):
        return hash(('TEnum', self.pyenum.__name__))


class TMap(Ty):
    """Mapping[str, V] as an association: Array(String, Option V)."""

    def __init__(self, val: Ty):
        self.val = val

    def z3sort(self):
        return z3.ArraySort(z3.StringSort(), CT.option_sort(self.val))

    def __repr__(self):
        return f'Map[{self.val!r}]'


class FieldInfo:
    def __init__(self, name, ty: Ty, attr, common: bool):
        self.name = name
        self.ty = ty
        self.attr = attr           # the attrs Attribute
        self.common = common       # declared on the sort root (lives in the wrapper constructor)


class ClassInfo:
    def __init__(self, cls, sort: str):
        self.cls = cls
        self.name = cls.__name__
        self.sort = sort
        self.fields: List[FieldInfo] = []       # eq-relevant fields in attrs order
        self.dropped: List[str] = []            # fields not in the value model (eq=False)


###############################################################################
# the table
###############################################################################

class ClassTable:
    def __init__(self):
        self.modules = {}
        self.classes: Dict[type, ClassInfo] = {}
        self.by_name: Dict[str, ClassInfo] = {}
        self.sort_root: Dict[str, type] = {}
        self.sort_classes: Dict[str, List[ClassInfo]] = {}
        self.sort_common: Dict[str, List[FieldInfo]] = {}
        self.sorts: Dict[str, Any] = {}
        self.bodies: Dict[str, Any] = {}
        self._opt: Dict[str, Any] = {}
        self._enum: Dict[type, Any] = {}
        self.Val = None
        self.DataType = None
        self.notes: List[str] = []

    # -- discovery ----------------------------------------------------------
    def load(self):
        for m in REPO_MODULES:
            self.modules[m] = importlib.import_module(m)
        self.DataType = self.modules['hpl.types'].DataType
        assert len(self.DataType.ANY.__class__.__members__) >= DT_BITS
        allcls = {}
        for mname, mod in self.modules.items():
            for name, obj in vars(mod).items():
                if (isinstance(obj, type) and attrs.has(obj) and obj.__module__ == mname
                        and getattr(mod, name) is obj and obj.__name__ == name):
                    allcls[name] = obj
        roots = []
        for sname, cname in SORT_ROOTS:
            if cname in allcls:
                roots.append((sname, allcls[cname]))
                self.sort_root[sname] = allcls[cname]
        for name, cls in allcls.items():
            sort = None
            for sname, rcls in roots:
                if issubclass(cls, rcls):
                    sort = sname
                    break
            if sort is None:
                if name in ABSTRACT:
                    continue
                # a new, unrelated attrs class: its own sort
                sort = name
                self.sort_root[sort] = cls
                roots.append((sort, cls))
                self.notes.append(f'class {name} has no configured sort root: own sort')
            if name in ABSTRACT:
                continue
            ci = ClassInfo(cls, sort)
            self.classes[cls] = ci
            self.by_name[name] = ci
            self.sort_classes.setdefault(sort, []).append(ci)
        # fields
        for ci in self.classes.values():
            root = self.sort_root[ci.sort]
            root_fields = {a.name for a in attrs.fields(root)} if attrs.has(root) else set()
            hints = {}
            for klass in reversed(ci.cls.__mro__):
                try:
                    hints.update(typing.get_type_hints(klass))
                except Exception:
                    pass
            for a in attrs.fields(ci.cls):
                if not a.eq:
                    ci.dropped.append(a.name)
                    continue
                ann = hints.get(a.name, a.type)
                ty = self.ty_of_annotation(ann, f'{ci.name}.{a.name}')
                common = a.name in root_fields and root.__name__ in ABSTRACT
                ci.fields.append(FieldInfo(a.name, ty, a, common))
        for sort, cis in self.sort_classes.items():
            common = None
            for ci in cis:
                c = [(f.name, f.ty) for f in ci.fields if f.common]
                if common is None:
                    common = c
                assert c == common, f'common fields differ in sort {sort}'
            self.sort_common[sort] = [f for f in cis[0].fields if f.common]
        return self

    def ty_of_annotation(self, ann, where='') -> Ty:
        origin = typing.get_origin(ann)
        args = typing.get_args(ann)
        if ann is str:
            return TStr()
        if ann is bool:
            return TBool()
        if ann is int:
            return TInt()
        if ann is float:
            return TReal()
        if ann is Any:
            return TVal()
        if ann is self.DataType:
            return TDT()
        if isinstance(ann, type) and issubclass(ann, enum.Enum):
            return TEnum(ann)
        if isinstance(ann, type) and attrs.has(ann):
            for sname, rcls in self.sort_root.items():
                if issubclass(ann, rcls):
                    return TNode(sname)
            raise TypeError(f'no sort for class {ann} at {where}')
        if origin in (tuple, typing.Tuple):
            if len(args) == 1 or (len(args) == 2 and args[1] is Ellipsis):
                # the repo writes Tuple[X] for "tuple of X, any length"
                return TSeq(self.ty_of_annotation(args[0], where))
            raise TypeError(f'fixed tuple annotation {ann} at {where}')
        if origin is typing.Union:
            non_none = [a for a in args if a is not type(None)]
            if len(non_none) < len(args) and len(non_none) == 1:
                return TOpt(self.ty_of_annotation(non_none[0], where))
            if set(non_none) <= {bool, int, float, str}:
                return TVal()
            raise TypeError(f'union annotation {ann} at {where}')
        if origin in (dict, typing.Dict) or (origin is not None and getattr(origin, '__name__', '') == 'Mapping'):
            if args and args[0] is str:
                try:
                    return TMap(self.ty_of_annotation(args[1], where))
                except TypeError:
                    return TMap(TVal())
        raise TypeError(f'unsupported annotation {ann!r} at {where}')

    # -- z3 sorts -----------------------------------------------------------
    def build_sorts(self):
        Val = z3.Datatype('Val')
        Val.declare('VBool', ('vbool', z3.BoolSort()))
        Val.declare('VInt', ('vint', z3.IntSort()))
        Val.declare('VFloat', ('vfloat', z3.RealSort()))
        Val.declare('VStr', ('vstr', z3.StringSort()))
        self.Val = Val.create()
        # enum sorts first (no recursion)
        for ci in self.classes.values():
            for f in ci.fields:
                self._prepare_leaf(f.ty)
        dts = {}
        order = []
        for sort in self.sort_classes:
            dts[sort] = z3.Datatype(sort)
            order.append(sort)
            if self.sort_common[sort]:
                dts[sort + 'Body'] = z3.Datatype(sort + 'Body')
                order.append(sort + 'Body')
        # Option sorts over node sorts must be part of the same recursive family
        opt_needed = {}
        for ci in self.classes.values():
            for f in ci.fields:
                self._collect_opts(f.ty, opt_needed)
        for key, elem in opt_needed.items():
            dts['Opt_' + key] = z3.Datatype('Opt_' + key)
            order.append('Opt_' + key)

        def fsort(ty: Ty):
            if isinstance(ty, TNode):
                return dts[ty.sort] if ty.sort in dts else z3.DatatypeSort(ty.sort)
            if isinstance(ty, TSeq):
                return z3.SeqSort(fref(ty.elem))
            if isinstance(ty, TOpt):
                return dts['Opt_' + repr(ty.elem)]
            if isinstance(ty, TMap):
                return z3.ArraySort(z3.StringSort(), fref(TOpt(ty.val)))
            return ty.z3sort()

        def fref(ty: Ty):
            # reference usable *inside* a Seq/Array of a datatype under definition
            if isinstance(ty, TNode):
                return z3.DatatypeSort(ty.sort)
            if isinstance(ty, TOpt):
                return z3.DatatypeSort('Opt_' + repr(ty.elem))
            if isinstance(ty, TSeq):
                return z3.SeqSort(fref(ty.elem))
            return ty.z3sort()

        for key, elem in opt_needed.items():
            d = dts['Opt_' + key]
            d.declare('None_' + key)
            d.declare('Some_' + key, ('the_' + key, fsort(elem)))
        for sort, cis in self.sort_classes.items():
            common = self.sort_common[sort]
            if common:
                dts[sort].declare('mk' + sort, *[(f'{sort}__{f.name}', fsort(f.ty)) for f in common],
                                  (f'{sort}__body', dts[sort + 'Body']))
                target = dts[sort + 'Body']
            else:
                target = dts[sort]
            for ci in cis:
                target.declare(ci.name, *[(f'{ci.name}__{f.name}', fsort(f.ty))
                                           for f in ci.fields if not f.common])
        created = z3.CreateDatatypes(*[dts[k] for k in order])
        for k, s in zip(order, created):
            if k.startswith('Opt_'):
                self._opt[k[4:]] = s
            elif k.endswith('Body') and k[:-4] in self.sort_classes:
                self.bodies[k[:-4]] = s
            else:
                self.sorts[k] = s
        return self

    def _prepare_leaf(self, ty):
        if isinstance(ty, TEnum):
            self.enum_sort(ty.pyenum)
        for sub in ('elem', 'val'):
            if hasattr(ty, sub):
                self._prepare_leaf(getattr(ty, sub))

    def _collect_opts(self, ty, acc):
        if isinstance(ty, TOpt):
            acc[repr(ty.elem)] = ty.elem
        if isinstance(ty, TMap):
            acc[repr(ty.val)] = ty.val
        for sub in ('elem', 'val'):
            if hasattr(ty, sub):
                self._collect_opts(getattr(ty, sub), acc)

    def option_sort(self, elem: Ty):
        key = repr(elem)
        if key not in self._opt:
            d = z3.Datatype('Opt_' + key)
            d.declare('None_' + key)
            d.declare('Some_' + key, ('the_' + key, elem.z3sort()))
            self._opt[key] = d.create()
        return self._opt[key]

    def opt_none(self, elem: Ty):
        s = self.option_sort(elem)
        return getattr(s, 'None_' + repr(elem))

    def opt_some(self, elem: Ty, t):
        s = self.option_sort(elem)
        return getattr(s, 'Some_' + repr(elem))(t)

    def opt_is_none(self, elem: Ty, t):
        s = self.option_sort(elem)
        return getattr(s, 'is_None_' + repr(elem))(t)

    def opt_the(self, elem: Ty, t):
        s = self.option_sort(elem)
        return getattr(s, 'the_' + repr(elem))(t)

    def enum_sort(self, pyenum):
        if pyenum not in self._enum:
            names = [f'{pyenum.__name__}_{m}' for m in pyenum.__members__]
            s, consts = z3.EnumSort(pyenum.__name__, names)
            self._enum[pyenum] = (s, dict(zip(pyenum.__members__.values(), consts)))
        return self._enum[pyenum]

    # -- constructors / accessors -------------------------------------------
    def has_wrapper(self, sort):
        return bool(self.sort_common[sort])

    def ctor(self, ci: ClassInfo, values: Dict[str, Any]):
        """term of class ci from a dict field name -> z3 term."""
        sort = ci.sort
        if self.has_wrapper(sort):
            body = getattr(self.bodies[sort], ci.name)
            nb = [values[f.name] for f in ci.fields if not f.common]
            b = body(*nb) if nb else body
            mk = getattr(self.sorts[sort], 'mk' + sort)
            return mk(*[values[f.name] for f in self.sort_common[sort]], b)
        c = getattr(self.sorts[sort], ci.name)
        nb = [values[f.name] for f in ci.fields]
        return c(*nb) if nb else c

    def is_class(self, ci: ClassInfo, term):
        sort = ci.sort
        if self.has_wrapper(sort):
            return getattr(self.bodies[sort], 'is_' + ci.name)(self.body_of(sort, term))
        return getattr(self.sorts[sort], 'is_' + ci.name)(term)

    def body_of(self, sort, term):
        return getattr(self.sorts[sort], f'{sort}__body')(term)

    def field(self, ci: ClassInfo, fname: str, term):
        f = next(f for f in ci.fields if f.name == fname)
        sort = ci.sort
        if f.common:
            return getattr(self.sorts[sort], f'{sort}__{fname}')(term)
        if self.has_wrapper(sort):
            return getattr(self.bodies[sort], f'{ci.name}__{fname}')(self.body_of(sort, term))
        return getattr(self.sorts[sort], f'{ci.name}__{fname}')(term)

    def common_field(self, sort, fname, term):
        return getattr(self.sorts[sort], f'{sort}__{fname}')(term)

    def with_common(self, sort, term, fname, new):
        """copy of term with the common field fname replaced (e.g. narrowed data_type)."""
        mk = getattr(self.sorts[sort], 'mk' + sort)
        args = [new if f.name == fname else self.common_field(sort, f.name, term)
                for f in self.sort_common[sort]]
        return mk(*args, self.body_of(sort, term))

    def field_info(self, ci, fname) -> Optional[FieldInfo]:
        for f in ci.fields:
            if f.name == fname:
                return f
        return None

    def class_of_name(self, name) -> ClassInfo:
        return self.by_name[name]

    def leaf_classes(self, sort, base: Optional[type] = None) -> List[ClassInfo]:
        return [ci for ci in self.sort_classes[sort] if base is None or issubclass(ci.cls, base)]

    def sort_of_class(self, cls) -> Optional[str]:
        for sname, rcls in self.sort_root.items():
            if issubclass(cls, rcls):
                return sname
        return None

    # -- lifting concrete objects ------------------------------------------
    def dt_val(self, member):
        return z3.BitVecVal(member.value, DT_BITS)

    def lift(self, obj, ty: Ty):
        """z3 term denoting the concrete Python object `obj` at type ty."""
        if isinstance(ty, TBool):
            return z3.BoolVal(bool(obj))
        if isinstance(ty, TInt):
            return z3.IntVal(int(obj))
        if isinstance(ty, TReal):
            if obj == float('inf') or obj == float('-inf') or obj != obj:
                return real_special(obj)
            return z3.RealVal(repr(float(obj))) if isinstance(obj, float) else z3.RealVal(obj)
        if isinstance(ty, TStr):
            return z3.StringVal(str(obj))
        if isinstance(ty, TDT):
            return self.dt_val(obj)
        if isinstance(ty, TVal):
            return self.lift_val(obj)
        if isinstance(ty, TEnum):
            return self.enum_sort(ty.pyenum)[1][obj]
        if isinstance(ty, TOpt):
            if obj is None:
                return self.opt_none(ty.elem)
            return self.opt_some(ty.elem, self.lift(obj, ty.elem))
        if isinstance(ty, TSeq):
            es = [z3.Unit(self.lift(o, ty.elem)) for o in obj]
            if not es:
                return z3.Empty(ty.z3sort())
            return es[0] if len(es) == 1 else z3.Concat(*es)
        if isinstance(ty, TMap):
            arr = z3.K(z3.StringSort(), self.opt_none(ty.val))
            for k, v in obj.items():
                arr = z3.Store(arr, z3.StringVal(k), self.opt_some(ty.val, self.lift(v, ty.val)))
            return arr
        if isinstance(ty, TNode):
            ci = self.classes[type(obj)]
            assert ci.sort == ty.sort, (ci.sort, ty.sort)
            return self.ctor(ci, {f.name: self.lift(getattr(obj, f.name), f.ty) for f in ci.fields})
        raise TypeError(f'cannot lift {obj!r} at {ty!r}')

    def lift_val(self, obj):
        V = self.Val
        if isinstance(obj, bool):
            return V.VBool(z3.BoolVal(obj))
        if isinstance(obj, int):
            return V.VInt(z3.IntVal(obj))
        if isinstance(obj, float):
            if obj != obj or obj in (float('inf'), float('-inf')):
                return V.VFloat(real_special(obj))
            return V.VFloat(z3.RealVal(repr(obj)))
        if isinstance(obj, str):
            return V.VStr(z3.StringVal(obj))
        raise TypeError(f'cannot lift payload {obj!r}')

    def ty_of_object(self, obj) -> Optional[Ty]:
        if isinstance(obj, bool):
            return TBool()
        if isinstance(obj, int):
            return TInt()
        if isinstance(obj, float):
            return TReal()
        if isinstance(obj, str):
            return TStr()
        if isinstance(obj, self.DataType):
            return TDT()
        if isinstance(obj, enum.Enum) and type(obj) in self._enum:
            return TEnum(type(obj))
        if type(obj) in self.classes:
            return TNode(self.classes[type(obj)].sort)
        return None

    # -- model values back to real objects ---------------------------------
    def unlift(self, term, ty: Ty, raw=False):
        """Concrete z3 value -> Python object (AST objects through real constructors unless raw)."""
        term = z3.simplify(term)
        if isinstance(ty, TBool):
            return z3.is_true(term)
        if isinstance(ty, TInt):
            return term.as_long()
        if isinstance(ty, TReal):
            if z3.is_rational_value(term):
                fr = term.as_fraction()
                return int(fr) if fr.denominator == 1 and False else float(fr)
            return float(term.approx(20).as_fraction())
        if isinstance(ty, TStr):
            return term.as_string()
        if isinstance(ty, TDT):
            return self.DataType(term.as_long())
        if isinstance(ty, TVal):
            name = term.decl().name()
            a = term.arg(0)
            if name == 'VBool':
                return z3.is_true(a)
            if name == 'VInt':
                return a.as_long()
            if name == 'VFloat':
                return float(a.as_fraction()) if z3.is_rational_value(a) else float(a.approx(20).as_fraction())
            return a.as_string()
        if isinstance(ty, TEnum):
            consts = self.enum_sort(ty.pyenum)[1]
            for m, c in consts.items():
                if c.eq(term):
                    return m
            raise ValueError(term)
        if isinstance(ty, TOpt):
            if term.decl().name().startswith('None_'):
                return None
            return self.unlift(term.arg(0), ty.elem, raw)
        if isinstance(ty, TSeq):
            return tuple(self.unlift(t, ty.elem, raw) for t in seq_elems(term))
        if isinstance(ty, TNode):
            return self.unlift_node(term, ty.sort, raw)
        raise TypeError(f'cannot unlift {term} at {ty!r}')

    def unlift_node(self, term, sort, raw=False):
        vals = {}
        if self.has_wrapper(sort):
            common = self.sort_common[sort]
            for i, f in enumerate(common):
                vals[f.name] = self.unlift(term.arg(i), f.ty, raw)
            body = term.arg(len(common))
        else:
            body = term
        ci = self.by_name[body.decl().name()]
        nb = [f for f in ci.fields if not f.common]
        for i, f in enumerate(nb):
            vals[f.name] = self.unlift(body.arg(i), f.ty, raw)
        return make_object(ci, vals, raw)

    def check_assumptions(self, repo_src) -> List[str]:
        """syntactic checks behind the table: abstract classes are never instantiated in the repo."""
        import ast as pyast
        import pathlib
        problems = []
        for p in pathlib.Path(repo_src, 'hpl').rglob('*.py'):
            if p.name == '_unused.py':
                continue
            tree = pyast.parse(p.read_text())
            for node in pyast.walk(tree):
                if isinstance(node, pyast.Call) and isinstance(node.func, pyast.Name) and node.func.id in ABSTRACT:
                    problems.append(f'{p}:{node.lineno}: abstract class {node.func.id} instantiated')
        return problems


def make_object(ci: ClassInfo, vals: Dict[str, Any], raw=False):
    """Build a real object of class ci.cls with the given eq-field values.

    raw=False: through the real constructor (validators, converters run); the caller checks the
    result still has the requested field values.  raw=True: object.__new__ + object.__setattr__
    (an object state that the public constructors may not be able to produce)."""
    cls = ci.cls
    if not raw:
        kwargs = {}
        for a in attrs.fields(cls):
            if a.init and a.name in vals:
                kwargs[a.alias if hasattr(a, 'alias') and a.alias else a.name] = vals[a.name]
        return cls(**kwargs)
    obj = object.__new__(cls)
    for a in attrs.fields(cls):
        if a.name in vals:
            object.__setattr__(obj, a.name, vals[a.name])
        elif isinstance(a.default, attrs.Factory):
            object.__setattr__(obj, a.name, a.default.factory())
        else:
            object.__setattr__(obj, a.name, a.default)
    return obj


def seq_elems(term):
    term = z3.simplify(term)
    k = term.decl().kind()
    if k == z3.Z3_OP_SEQ_EMPTY:
        return []
    if k == z3.Z3_OP_SEQ_UNIT:
        return [term.arg(0)]
    if k == z3.Z3_OP_SEQ_CONCAT:
        out = []
        for i in range(term.num_args()):
            out.extend(seq_elems(term.arg(i)))
        return out
    raise ValueError(f'not a concrete sequence: {term}')


_SPECIAL = {}


def real_special(x):
    """inf / -inf / nan have no mathematical counterpart (A-REAL): distinct opaque real constants,
    constrained only by  -INF < every literal < INF  where callers add that fact."""
    key = 'nan' if x != x else ('inf' if x > 0 else 'ninf')
    if key not in _SPECIAL:
        _SPECIAL[key] = z3.Real('REAL_' + key.upper())
    return _SPECIAL[key]


CT: ClassTable = None  # type: ignore


def get_table(repo_src='/repo/src') -> ClassTable:
    global CT
    if CT is None:
        if repo_src not in sys.path:
            sys.path.insert(0, repo_src)
        import hpl
        assert hpl.__file__.startswith(repo_src), f'hpl imported from {hpl.__file__}, not {repo_src}'
        CT = ClassTable().load()
        CT.build_sorts()
    return CT
