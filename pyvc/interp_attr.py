"""Attribute access: fields, properties, methods, dynamic dispatch on symbolic receivers."""
from __future__ import annotations

import ast
import enum
import inspect
import types
from typing import Any, Dict, List, Optional

import z3

from .classtable import (Ty, TBool, TInt, TReal, TStr, TDT, TVal, TNode, TSeq, TSet, TOpt, TEnum, TMap)
from .contracts import CONTRACTS, unwrap_function
from .values import (MetaBox, SV, Rec, Box, Exc, BoundMethod, VirtualMethod, Closure, FunSym, Opaque, PyRaise,
                     Untranslatable, is_concrete)
from .interp_expr import BuiltinMethod, Frame

_MISSING = object()


def light_simplify(t):
    """accessor applied to its own constructor -> the field (no other rewriting: z3's full simplifier
    introduces internal sequence symbols)"""
    try:
        while z3.is_app(t) and t.decl().kind() == z3.Z3_OP_DT_ACCESSOR:
            a = t.arg(0)
            a = light_simplify(a)
            if z3.is_app(a) and a.decl().kind() == z3.Z3_OP_DT_CONSTRUCTOR:
                srt = a.sort()
                done = False
                for ci in range(srt.num_constructors()):
                    if srt.constructor(ci).eq(a.decl()):
                        for j in range(srt.constructor(ci).arity()):
                            if srt.accessor(ci, j).eq(t.decl()):
                                t = a.arg(j)
                                done = True
                                break
                        break
                if not done:
                    return t
            else:
                if not a.eq(t.arg(0)):
                    t = t.decl()(a)
                return t
        return t
    except Exception:
        return t


def static_attr(cls, name):
    try:
        return inspect.getattr_static(cls, name)
    except AttributeError:
        return _MISSING


def const_property_value(fget):
    """the constant a trivial property returns (`return True`), or _MISSING"""
    try:
        code = fget.__code__
    except AttributeError:
        return _MISSING
    if code.co_names or code.co_argcount != 1 or len(code.co_consts) > 2:
        return _MISSING
    consts = [c for c in code.co_consts if c is not None and not isinstance(c, str)]
    # bytecode of `return CONST` : very short, no loads of names / attributes
    if len(code.co_code) <= 8 and len(consts) == 1 and isinstance(consts[0], bool):
        return consts[0]
    return _MISSING


class AttrMixin:
    def find_contract(self, cls, name):
        """contract governing attribute `name` looked up on class cls (implementation-first, then virtual)"""
        impl = None
        for klass in cls.__mro__:
            if impl is None and name in vars(klass):
                impl = klass
            qual = f'{klass.__module__}.{klass.__qualname__}.{name}'
            c = CONTRACTS.get(qual)
            if c is not None and (klass is impl or c.virtual):
                return c
        return None

    def class_set(self, obj: SV):
        sort = obj.ty.sort
        allc = self.ct.sort_classes[sort]
        fact = self.ex.st.cls_facts.get(obj.term.get_id())
        if fact is not None and fact[0].eq(obj.term):
            return [ci for ci in allc if ci.name in fact[1]]
        return list(allc)

    def restrict_class(self, obj: SV, cis):
        self.ex.st.cls_facts[obj.term.get_id()] = (obj.term, frozenset(ci.name for ci in cis))

    def class_cond(self, obj: SV, cis):
        return self.disj([self.ct.is_class(ci, obj.term) for ci in cis])

    def getattr_value(self, obj, name, fr, node=None):
        if isinstance(obj, SV):
            ty = obj.ty
            if isinstance(ty, TNode):
                return self.node_getattr(obj, name, fr, node)
            if isinstance(ty, TOpt):
                if self.ex.branch(self.ct.opt_is_none(ty.elem, obj.term), 'none-attr'):
                    self.raise_exc(AttributeError, f"'NoneType' object has no attribute '{name}'", fr, node)
                inner = SV(self.ct.opt_the(ty.elem, obj.term), ty.elem, oid=obj.oid, fresh=obj.fresh)
                return self.getattr_value(inner, name, fr, node)
            if isinstance(ty, TDT):
                return self.pyclass_getattr(self.ct.DataType, obj, name, fr, node)
            if isinstance(ty, TEnum):
                return self.pyclass_getattr(ty.pyenum, obj, name, fr, node)
            if isinstance(ty, TStr):
                if name in ('startswith', 'endswith', 'isalpha', 'capitalize', 'join', 'lower', 'upper',
                            'strip', 'isdigit'):
                    return BuiltinMethod('str.' + name, obj)
            if isinstance(ty, TMap):
                if name in ('get', 'items', 'values', 'keys'):
                    return BuiltinMethod('map.' + name, obj)
            if isinstance(ty, TSeq):
                if name in ('index', 'count'):
                    return BuiltinMethod('seq.' + name, obj)
            if isinstance(ty, TVal):
                # attribute on a literal payload (e.g. .startswith on a str payload): not modelled
                raise Untranslatable(f'attribute {name} on literal payload')
            self.raise_exc(AttributeError, f'{ty!r} has no attribute {name}', fr, node)
        if isinstance(obj, Rec):
            if name in obj.fields:
                return obj.fields[name]
            return self.pyclass_getattr(obj.ci.cls, obj, name, fr, node)
        if isinstance(obj, Box):
            return BuiltinMethod(f'{obj.kind}.{name}', obj)
        if isinstance(obj, MetaBox):
            return BuiltinMethod('meta.' + name, obj)
        if isinstance(obj, Exc):
            if name == 'args':
                return obj.args
            raise Untranslatable(f'attribute {name} on exception value')
        if isinstance(obj, Opaque):
            raise Untranslatable(f'attribute {name} on opaque value')
        if isinstance(obj, (Closure, FunSym, BoundMethod, VirtualMethod)):
            raise Untranslatable(f'attribute {name} on function value')
        if isinstance(obj, tuple) and not is_concrete(obj):
            raise Untranslatable(f'attribute {name} on symbolic tuple')
        # concrete python object: native lookup
        if isinstance(obj, (list, dict, set)) and name in ('append', 'extend', 'pop', 'add', 'update', 'remove',
                                                          'discard', 'clear', 'insert', 'sort'):
            raise Untranslatable('mutation of a concrete shared container')
        try:
            return getattr(obj, name)
        except AttributeError as e:
            self.raise_exc(AttributeError, str(e), fr, node)
        except Exception as e:     # a property of a real object that raises
            self.raise_exc(type(e), str(e), fr, node)

    # -------------------------------------------------------------- python classes with symbolic receiver
    def pyclass_getattr(self, cls, recv, name, fr, node):
        """attribute `name` of an instance of the *python* class cls whose instance is the symbolic recv"""
        a = static_attr(cls, name)
        if a is _MISSING:
            if isinstance(recv, SV) and isinstance(recv.ty, TEnum) and name in ('value', 'name', '_value_'):
                return self.enum_value(recv, name)
            if isinstance(recv, SV) and isinstance(recv.ty, TDT) and name in ('value', '_value_'):
                return SV(z3.BV2Int(recv.term), TInt())
            self.raise_exc(AttributeError, f"'{cls.__name__}' object has no attribute '{name}'", fr, node)
        if isinstance(a, property):
            if isinstance(recv, SV) and isinstance(recv.ty, TEnum) and name in ('value', 'name') \
                    and a.fget.__module__ in ('enum', 'types'):
                return self.enum_value(recv, name)
            return self.call_function(unwrap_function(a), [recv], {}, fr, node, owner=cls)
        if isinstance(a, types.DynamicClassAttribute):
            return self.enum_value(recv, name)
        if isinstance(a, staticmethod):
            return a.__func__
        if isinstance(a, classmethod):
            return BoundMethod(a.__func__, cls, owner=cls)
        if inspect.isfunction(a):
            return BoundMethod(a, recv, owner=cls)
        if isinstance(a, (types.MemberDescriptorType,)):
            raise Untranslatable(f'slot {name} of {cls.__name__} not initialised')
        return a   # class-level constant (e.g. enum member)

    def enum_value(self, recv: SV, name):
        pyenum = recv.ty.pyenum
        members = list(pyenum.__members__.values())
        vals = [m.value if name != 'name' else m.name for m in members]
        ty = self.ty_of(vals[0])
        if ty is None or any(self.ty_of(v) != ty for v in vals):
            raise Untranslatable(f'enum {pyenum.__name__}.{name} of mixed type')
        consts = self.ct.enum_sort(pyenum)[1]
        t = self.term(vals[-1], ty)
        for m, v in list(zip(members, vals))[-2::-1]:
            t = z3.If(recv.term == consts[m], self.term(v, ty), t)
        return SV(t, ty)

    # -------------------------------------------------------------- symbolic AST receiver
    def node_getattr(self, obj: SV, name, fr, node):
        cis = self.class_set(obj)
        # resolution per class
        res = {}
        for ci in cis:
            f = self.ct.field_info(ci, name)
            if f is not None:
                res[ci.name] = ('field', f)
                continue
            a = static_attr(ci.cls, name)
            if a is _MISSING:
                res[ci.name] = ('missing', None)
            elif isinstance(a, property):
                res[ci.name] = ('prop', a.fget)
            elif isinstance(a, classmethod):
                res[ci.name] = ('cmeth', a.__func__)
            elif isinstance(a, staticmethod):
                res[ci.name] = ('smeth', a.__func__)
            elif inspect.isfunction(a):
                res[ci.name] = ('meth', a)
            elif isinstance(a, types.MemberDescriptorType):
                # a slot that is not an eq-field (metadata)
                res[ci.name] = ('slot', name)
            else:
                res[ci.name] = ('const', a)
        # virtual contract?
        if len(cis) > 1 or True:
            cons = {ci.name: self.find_contract(ci.cls, name) for ci in cis
                    if res[ci.name][0] in ('meth', 'prop')}
            if cons and len(cons) == len(cis):
                first = next(iter(cons.values()))
                if first is not None and all(c is first for c in cons.values()):
                    exact = len(cis) == 1
                    if not exact and first.inline_when_known and self.receiver_known(obj):
                        return self.node_getattr(obj, name, fr, node)     # class now fixed by the path condition
                    if not (exact and first.inline_when_known):
                        if res[cis[0].name][0] == 'prop':
                            return self.call_contract(first, [obj], {}, fr, node)
                        return VirtualMethod(name, obj, first)
        # group classes
        groups: Dict[Any, List] = {}
        for ci in cis:
            kind, what = res[ci.name]
            if kind == 'field':
                key = ('field', name) if what.common else ('field', ci.name)
            elif kind in ('prop', 'meth', 'cmeth', 'smeth'):
                key = (kind, id(what))
            elif kind == 'const':
                key = ('const', id(what))
            else:
                key = (kind,)
            groups.setdefault(key, []).append(ci)
        keys = list(groups)
        # constant properties merge into one boolean term without forking
        if len(keys) > 1 and all(k[0] == 'prop' for k in keys):
            consts = {k: const_property_value(res[groups[k][0].name][1]) for k in keys}
            if all(c is not _MISSING for c in consts.values()):
                true_classes = [ci for k in keys if consts[k] for ci in groups[k]]
                return self.wrap_bool(self.class_cond(obj, true_classes))
        if len(keys) > 1:
            conds = [self.bterm(self.class_cond(obj, groups[k])) for k in keys]
            labels = [f'{name}@' + '|'.join(ci.name for ci in groups[k]) for k in keys]
            # constant properties + missing: fork only missing vs rest
            i = self.ex.choose(conds, labels)
            key = keys[i]
            self.restrict_class(obj, groups[key])
        else:
            key = keys[0]
        grp = groups[key]
        kind, what = res[grp[0].name]
        if kind == 'missing':
            self.raise_exc(AttributeError, f"'{grp[0].name}' object has no attribute '{name}'", fr, node)
        if kind == 'field':
            f = what
            if f.common:
                t = self.ct.common_field(obj.ty.sort, name, obj.term)
            else:
                t = self.ct.field(grp[0], name, obj.term)
            t = light_simplify(t)
            oid = ('path', name, str(obj.oid) if obj.oid is not None else obj.term.sexpr()[:200])
            return SV(t, f.ty, oid=oid, fresh=False)
        if kind == 'prop':
            return self.call_function(unwrap_function(what), [obj], {}, fr, node, owner=grp[0].cls)
        if kind == 'meth':
            return BoundMethod(what, obj, owner=grp[0].cls)
        if kind == 'cmeth':
            if len(grp) > 1:
                raise Untranslatable('classmethod on receiver of unknown class')
            return BoundMethod(what, grp[0].cls, owner=grp[0].cls)
        if kind == 'smeth':
            return what
        if kind == 'slot':
            return self.read_slot(obj, name, fr, node)
        return what

    def read_slot(self, obj, name, fr, node):
        if name == 'metadata':
            key = obj.oid if obj.oid is not None else ('term', obj.term.get_id())
            mb = self.meta_boxes.get(key)
            if mb is None:
                mb = self.meta_boxes[key] = MetaBox(key)
            return mb
        raise Untranslatable(f'slot {name} outside the value model')
