"""Statements, loops (invariant cuts), comprehensions."""
from __future__ import annotations

import ast
from typing import Any, Dict, List, Optional

import z3

from .classtable import (Ty, TBool, TInt, TReal, TStr, TDT, TVal, TNode, TSeq, TSet, TOpt, TEnum, TMap)
from .contracts import INVARIANTS, parse_ty
from .values import (SV, Rec, Box, Exc, BoundMethod, VirtualMethod, Closure, FunSym, Opaque, PyRaise,
                     ReturnSig, BreakSig, ContinueSig, PathCut, Untranslatable, Infeasible, NeedFork, is_concrete)
from .interp_expr import Frame
from .interp_builtins import Reversed, Zipped

MAX_UNROLL = 64


class StmtMixin:
    def exec_block(self, stmts, fr: Frame):
        for s in stmts:
            self.exec(s, fr)

    def exec(self, node, fr: Frame):
        m = getattr(self, 'exec_' + type(node).__name__, None)
        if m is None:
            raise Untranslatable(f'statement {type(node).__name__} in {fr.qualname}')
        return m(node, fr)

    def exec_Expr(self, node, fr):
        if isinstance(node.value, ast.Constant):
            return   # docstring
        if isinstance(node.value, ast.Yield):
            v = self.eval(node.value.value, fr) if node.value.value is not None else None
            if fr.yielded is None:
                raise Untranslatable('yield outside generator frame')
            self.bm_list_append(fr.yielded, [v], {}, fr, node)
            return
        self.eval(node.value, fr)

    def exec_Pass(self, node, fr):
        pass

    def exec_Return(self, node, fr):
        raise ReturnSig(self.eval(node.value, fr) if node.value is not None else None)

    def exec_Break(self, node, fr):
        raise BreakSig()

    def exec_Continue(self, node, fr):
        raise ContinueSig()

    def exec_Assign(self, node, fr):
        v = self.eval(node.value, fr)
        for t in node.targets:
            self.assign(t, v, fr)

    def exec_AnnAssign(self, node, fr):
        if node.value is None:
            return
        v = self.eval(node.value, fr)
        # annotation gives the element type of an empty container
        if isinstance(v, Box) and v.elem is None and v.term is None and not v.items:
            ety = self.elem_ty_from_annotation(node.annotation, fr)
            if ety is not None:
                v.elem = ety
        self.assign(node.target, v, fr)

    def elem_ty_from_annotation(self, ann, fr):
        try:
            import typing
            obj = eval(compile(ast.Expression(ann), '<ann>', 'eval'), dict(fr.globs), {})
            args = typing.get_args(obj)
            if args:
                return self.ct.ty_of_annotation(args[0])
        except Exception:
            return None
        return None

    def exec_AugAssign(self, node, fr):
        cur = self.eval(ast.copy_location(_load(node.target), node.target), fr)
        v = self.eval(node.value, fr)
        if isinstance(cur, Box) and cur.kind == 'set' and isinstance(node.op, (ast.BitOr, ast.BitAnd, ast.Sub)):
            # in-place set update (python semantics: same object)
            r = self.binop(node.op, cur, v, fr, node)
            self.mutation_counter += 1
            cur.term, cur.items, cur.elem = self.box_term(r), None, r.elem
            return
        if isinstance(cur, Box) and cur.kind == 'list' and isinstance(node.op, ast.Add):
            self.bm_list_extend(cur, [v], {}, fr, node)
            return
        r = self.binop(node.op, cur, v, fr, node)
        self.assign(node.target, r, fr)

    def assign(self, target, v, fr):
        if isinstance(target, ast.Name):
            fr.env[target.id] = v
            return
        if isinstance(target, (ast.Tuple, ast.List)):
            elems = self.unpack(v, len(target.elts), fr, target)
            for t, x in zip(target.elts, elems):
                self.assign(t, x, fr)
            return
        if isinstance(target, ast.Subscript):
            obj = self.eval(target.value, fr)
            k = self.eval(target.slice, fr)
            if isinstance(obj, Box) and obj.kind == 'dict' and obj.items is not None and is_concrete(k):
                self.mutation_counter += 1
                obj.items[k] = v
                return
            if isinstance(obj, Box) and obj.kind == 'dict':
                return self.dict_store(obj, k, v, fr, target)
            raise Untranslatable('subscript assignment')
        if isinstance(target, ast.Attribute):
            obj = self.eval(target.value, fr)
            if isinstance(obj, (Rec, SV)):
                # frozen attrs classes: plain attribute assignment raises
                from attrs.exceptions import FrozenInstanceError
                self.raise_exc(FrozenInstanceError, 'frozen', fr, target)
            raise Untranslatable('attribute assignment')
        raise Untranslatable(f'assignment target {type(target).__name__}')

    def dict_store(self, obj, k, v, fr, node):
        raise Untranslatable('dict store with symbolic key')

    def unpack(self, v, n, fr, node):
        if isinstance(v, Box) and v.term is None and v.kind == 'list':
            v = tuple(v.items)
        if isinstance(v, (tuple, list)):
            if len(v) != n:
                self.raise_exc(ValueError, f'cannot unpack {len(v)} values into {n}', fr, node)
            return list(v)
        if isinstance(v, SV) and isinstance(v.ty, TSeq):
            ln = z3.Length(v.term)
            if not self.ex.branch(ln == n, 'unpack-len'):
                self.raise_exc(ValueError, 'unpack length mismatch', fr, node)
            return [SV(v.term[i], v.ty.elem) for i in range(n)]
        if isinstance(v, SV) and isinstance(v.ty, TStr):
            ln = z3.Length(v.term)
            if not self.ex.branch(ln == n, 'unpack-len'):
                self.raise_exc(ValueError, 'unpack length mismatch', fr, node)
            return [SV(z3.SubString(v.term, i, 1), TStr()) for i in range(n)]
        raise Untranslatable(f'unpack of {v!r}')

    def exec_If(self, node, fr):
        t = self.eval(node.test, fr)
        if self.truth(t, f'if@{node.lineno}'):
            self.exec_block(node.body, fr)
        else:
            self.exec_block(node.orelse, fr)

    def exec_Assert(self, node, fr):
        t = self.eval(node.test, fr)
        if not self.truth(t, f'assert@{node.lineno}'):
            self.raise_exc(AssertionError, ast.unparse(node.test), fr, node)

    def exec_Raise(self, node, fr):
        if node.exc is None:
            raise Untranslatable('bare raise')
        v = self.eval(node.exc, fr)
        if isinstance(v, type) and issubclass(v, BaseException):
            v = Exc(v, ())
        if isinstance(v, BaseException):
            v = Exc(type(v), tuple(v.args))      # a real exception object built by concrete code
        if not isinstance(v, Exc):
            raise Untranslatable(f'raise of {v!r}')
        raise PyRaise(v)

    def exec_Try(self, node, fr):
        if node.finalbody:
            raise Untranslatable('try/finally')
        try:
            self.exec_block(node.body, fr)
        except PyRaise as e:
            for h in node.handlers:
                if h.type is None:
                    classes = (BaseException,)
                else:
                    c = self.eval(h.type, fr)
                    classes = c if isinstance(c, tuple) else (c,)
                if issubclass(e.exc.cls, classes):
                    if h.name:
                        fr.env[h.name] = e.exc
                    self.exec_block(h.body, fr)
                    return
            raise
        else:
            self.exec_block(node.orelse, fr)

    def exec_FunctionDef(self, node, fr):
        fr.env[node.name] = Closure(node, fr.env, fr.globs, node.name)

    def exec_Global(self, node, fr):
        raise Untranslatable('global statement')

    def exec_Import(self, node, fr):
        raise Untranslatable('import inside function')

    def exec_With(self, node, fr):
        raise Untranslatable('with statement')

    def exec_Delete(self, node, fr):
        raise Untranslatable('del statement')

    # ------------------------------------------------------------------ loops
    def loop_key(self, fr, node):
        return (fr.qualname, node.lineno)

    def iteration_space(self, it, fr, node):
        """('concrete', [elements]) or ('symbolic', SV seq) or ('set', Box)"""
        if isinstance(it, Reversed):
            it = self.reverse(it.v)
        if isinstance(it, Zipped):
            spaces = [self.iteration_space(v, fr, node) for v in it.vs]
            if all(k == 'concrete' for k, _ in spaces):
                return 'concrete', list(zip(*[s for _, s in spaces]))
            # zip of sequences, some of unknown length: iterate over index positions
            return 'zip', spaces
        if isinstance(it, Box):
            if it.term is None:
                return 'concrete', (list(it.items) if it.kind != 'dict' else list(it.items.keys()))
            if it.kind == 'list':
                return 'symbolic', SV(it.term, TSeq(it.elem))
            if it.kind == 'set' and getattr(self, 'set_iteration_by_membership', True):
                return 'symset', it
            if it.kind == 'set':
                # a set is iterated in *some* order: an arbitrary sequence with exactly these members
                seq = self.fresh('order', TSeq(it.elem))
                x = z3.Const(self.ex.fresh_name('m'), it.elem.z3sort())
                self.ex.assume(z3.ForAll([x], z3.IsMember(x, it.term) == z3.Contains(seq.term, z3.Unit(x))))
                return 'symbolic', seq
        if isinstance(it, SV):
            if isinstance(it.ty, TSeq):
                return 'symbolic', it
            raise Untranslatable(f'iteration over {it.ty!r}')
        if isinstance(it, range):
            if len(it) > MAX_UNROLL:
                raise Untranslatable('long concrete range')
            return 'concrete', list(it)
        if isinstance(it, tuple) and len(it) == 2 and it[0] == 'range':
            return 'range', it[1]
        if isinstance(it, (tuple, list)):
            return 'concrete', list(it)
        if isinstance(it, dict):
            return 'concrete', list(it.keys())
        if isinstance(it, (set, frozenset)):
            return 'concrete', sorted(it, key=repr)
        try:
            lst = list(it)
        except TypeError:
            self.raise_exc(TypeError, 'object is not iterable', fr, node)
        if len(lst) > MAX_UNROLL:
            raise Untranslatable('long concrete iteration')
        return 'concrete', lst

    def exec_For(self, node, fr):
        it = self.eval(node.iter, fr)
        kind, space = self.iteration_space(it, fr, node)
        if kind == 'concrete':
            broke = False
            for x in space:
                self.assign(node.target, x, fr)
                try:
                    self.exec_block(node.body, fr)
                except BreakSig:
                    broke = True
                    break
                except ContinueSig:
                    continue
            if not broke:
                self.exec_block(node.orelse, fr)
            return
        idx = fr.loop_index
        fr.loop_index += 1
        inv = INVARIANTS.get((self.strip_qual(fr.qualname), self.loop_ordinal(fr, node)))
        if inv is None:
            return self.summarise_loop(node, fr, kind, space)
        return self.cut_for(node, fr, kind, space, inv)

    def strip_qual(self, q):
        return q

    def loop_ordinal(self, fr, node):
        """ordinal of this loop statement among the loops of its function (source order)"""
        fnode = getattr(fr, 'fnode', None)
        key = (fr.qualname, id(node))
        if key in self._loop_ord:
            return self._loop_ord[key]
        return self._loop_ord.setdefault(key, self._loop_ord_by_line.get((fr.qualname, node.lineno), 0))

    def exec_While(self, node, fr):
        idx = self.loop_ordinal(fr, node)
        inv = INVARIANTS.get((fr.qualname, idx))
        if inv is None:
            # bounded unrolling is only sound when the condition becomes concretely false
            for _ in range(MAX_UNROLL):
                t = self.eval(node.test, fr)
                tt = self.truth_term(t)
                if not isinstance(tt, bool):
                    raise Untranslatable(f'while loop at {fr.qualname}:{node.lineno} needs an invariant')
                if not tt:
                    self.exec_block(node.orelse, fr)
                    return
                try:
                    self.exec_block(node.body, fr)
                except BreakSig:
                    return
                except ContinueSig:
                    continue
            raise Untranslatable('while loop does not terminate within the unrolling bound')
        return self.cut_while(node, fr, inv)

    # -- invariant cuts
    def modified_locals(self, body_nodes, fr):
        names = set()
        mutated = set()
        for b in body_nodes:
            for n in ast.walk(b):
                if isinstance(n, ast.Name) and isinstance(n.ctx, ast.Store):
                    names.add(n.id)
                if isinstance(n, ast.Call) and isinstance(n.func, ast.Attribute) and isinstance(n.func.value, ast.Name):
                    if n.func.attr in ('append', 'extend', 'pop', 'add', 'update', 'remove', 'discard', 'clear',
                                       'insert'):
                        mutated.add(n.func.value.id)
                if isinstance(n, ast.AugAssign) and isinstance(n.target, ast.Name):
                    names.add(n.target.id)
                    mutated.add(n.target.id)
                if isinstance(n, ast.Subscript) and isinstance(n.ctx, ast.Store) and isinstance(n.value, ast.Name):
                    mutated.add(n.value.id)
                if isinstance(n, (ast.Yield,)):
                    mutated.add('$yielded')
        return names, mutated

    def havoc(self, fr, names, mutated, inv, skip=()):
        for name in sorted(names | mutated):
            if name in skip:
                continue
            if name == '$yielded':
                b = fr.yielded
                self.box_symbolize(b, parse_ty(inv.types['$yielded'], self.ct) if '$yielded' in inv.types else None)
                b.term = self.fresh('yielded', TSeq(b.elem)).term
                continue
            if name not in fr.env:
                if name in inv.types:
                    fr.env[name] = self.fresh(name, parse_ty(inv.types[name], self.ct))
                continue   # assigned only inside the loop and dead at the loop head
            cur = fr.env[name]
            hint = parse_ty(inv.types[name], self.ct) if name in inv.types else None
            if isinstance(cur, Box):
                if cur.kind == 'dict':
                    raise Untranslatable(f'havoc of dict local {name}')
                self.box_symbolize(cur, hint)
                ty = TSeq(cur.elem) if cur.kind == 'list' else TSet(cur.elem)
                cur.term = self.fresh(name, ty).term
                continue
            ty = hint or self.ty_of(cur)
            if ty is None:
                if name in names and name not in mutated:
                    # reassigned in the body before use? keep going without a value
                    fr.env.pop(name, None)
                    continue
                raise Untranslatable(f'cannot havoc local {name} of unknown type')
            fr.env[name] = self.fresh(name, ty)

    def check_invariant(self, inv, fr, ghost, what, node):
        env = dict(fr.env)
        env.update(ghost)
        if fr.yielded is not None:
            env['yielded'] = fr.yielded
        params = [a.arg for a in inv.node.args.args]
        ienv = {}
        for p in params:
            if p not in env:
                raise Untranslatable(f'invariant of {inv.qualname} refers to unknown local {p}')
            v = env[p]
            ienv[p] = self.freeze(v)
        r = self.eval_clause(inv.node, inv.globs, ienv)
        self.obligation(f'{inv.qualname}/loop{inv.loop}/{what}', 'inv', inv.tag, self.bterm(self.truth_term(r)), node)

    def assume_invariant(self, inv, fr, ghost):
        env = dict(fr.env)
        env.update(ghost)
        if fr.yielded is not None:
            env['yielded'] = fr.yielded
        params = [a.arg for a in inv.node.args.args]
        ienv = {p: self.freeze(env[p]) for p in params}
        r = self.eval_clause(inv.node, inv.globs, ienv)
        self.ex.assume(self.bterm(self.truth_term(r)))

    def run_pre_hint(self, inv, fr, ghost):
        """lemma instances made available at the start of an arbitrary iteration (after the invariant is assumed)"""
        if inv.pre_hint is None:
            return
        env = dict(fr.env)
        env.update(ghost)
        if fr.yielded is not None:
            env['yielded'] = fr.yielded
        params = [a.arg for a in inv.pre_hint_node.args.args]
        self.eval_hint(inv.pre_hint_node, dict(inv.pre_hint.__globals__),
                       {p: self.freeze(env[p]) for p in params if p in env})

    def run_hint(self, inv, fr, old):
        if inv.hint is None:
            return
        env = dict(old)
        env.update(fr.env)
        if fr.yielded is not None:
            env['yielded'] = fr.yielded
        params = [a.arg for a in inv.hint_node.args.args]
        g = dict(inv.hint.__globals__)
        self.eval_hint(inv.hint_node, g, {p: self.freeze(env[p]) for p in params if p in env})

    def freeze(self, v):
        """immutable snapshot of a local for use in a contract clause"""
        if isinstance(v, Box):
            if v.kind == 'dict':
                return v
            if v.term is None:
                if v.kind == 'list':
                    return tuple(v.items)
                return Box(v.kind, items=list(v.items), elem=v.elem)
            if v.kind == 'list':
                return SV(v.term, TSeq(v.elem))
            return SV(v.term, TSet(v.elem))
        return v

    def cut_for(self, node, fr, kind, space, inv):
        if kind != 'symbolic':
            raise Untranslatable(f'invariant cut over {kind} iteration')
        seq: SV = space
        ety = seq.ty.elem
        names, mutated = self.modified_locals(node.body, fr)
        tnames = {n.id for n in ast.walk(node.target) if isinstance(n, ast.Name)}
        empty = SV(z3.Empty(seq.ty.z3sort()), seq.ty)
        # 1. invariant holds on entry
        self.check_invariant(inv, fr, {'done': empty, 'rest': seq, 'all': seq}, 'entry', node)
        # 2. arbitrary iteration or exit
        which = self.ex.choose([z3.BoolVal(True), z3.BoolVal(True)], ['loop:iter', 'loop:exit'])
        self.havoc(fr, names - tnames, mutated, inv)
        done = self.fresh('done', seq.ty)
        rest = self.fresh('rest', seq.ty)
        self.ex.assume(z3.Concat(done.term, rest.term) == seq.term)
        if which == 0:
            self.ex.assume(z3.Length(rest.term) > 0)
            self.assume_invariant(inv, fr, {'done': done, 'rest': rest, 'all': seq})
            self.run_pre_hint(inv, fr, {'done': done, 'rest': rest, 'all': seq})
            x = SV(rest.term[0], ety, oid=('elem', self.ex.fresh_name('x')))
            self.assign(node.target, x, fr)
            old = {'old_' + k: self.freeze(v) for k, v in fr.env.items()}
            try:
                self.exec_block(node.body, fr)
            except ContinueSig:
                pass
            except BreakSig:
                return      # continues after the loop, skipping else
            self.run_hint(inv, fr, old)
            ndone = SV(z3.Concat(done.term, z3.Unit(rest.term[0])), seq.ty)
            nrest = SV(z3.SubSeq(rest.term, 1, z3.Length(rest.term) - 1), seq.ty)
            self.check_invariant(inv, fr, {'done': ndone, 'rest': nrest, 'all': seq}, 'preserved', node)
            raise PathCut()
        self.ex.assume(z3.Length(rest.term) == 0)
        self.assume_invariant(inv, fr, {'done': done, 'rest': rest, 'all': seq})
        self.exec_block(node.orelse, fr)

    def cut_while(self, node, fr, inv):
        names, mutated = self.modified_locals(node.body, fr)
        self.check_invariant(inv, fr, {}, 'entry', node)
        which = self.ex.choose([z3.BoolVal(True), z3.BoolVal(True)], ['loop:iter', 'loop:exit'])
        self.havoc(fr, names, mutated, inv)
        self.assume_invariant(inv, fr, {})
        t = self.eval(node.test, fr)
        tt = self.bterm(self.truth_term(t))
        if which == 0:
            self.ex.assume(tt)
            self.run_pre_hint(inv, fr, {})
            old = {'old_' + k: self.freeze(v) for k, v in fr.env.items()}
            if fr.yielded is not None:
                old['old_yielded'] = self.freeze(fr.yielded)
            try:
                self.exec_block(node.body, fr)
            except ContinueSig:
                pass
            except BreakSig:
                return
            self.run_hint(inv, fr, old)
            self.check_invariant(inv, fr, {}, 'preserved', node)
            raise PathCut()
        self.ex.assume(z3.Not(tt))
        self.exec_block(node.orelse, fr)

    def summarise_loop(self, node, fr, kind, space):
        """Loops without an invariant: only the stateless *search* shape is summarised automatically.
        The body assigns nothing that outlives an iteration, mutates nothing, has no break, and every
        iteration either falls through or leaves the function (raise / return of a constant).  Then
          * the loop leaves the function iff some element makes the body leave (explored with one
            arbitrary such element), and
          * it falls through iff every element falls through (a universally quantified fact)."""
        if kind not in ('symbolic', 'symset'):
            raise Untranslatable(f'loop over {kind} at {fr.qualname}:{node.lineno} needs an invariant')
        names, mutated = self.modified_locals(node.body, fr)
        tnames = {n.id for n in ast.walk(node.target) if isinstance(n, ast.Name)}
        if mutated or (names - tnames):
            raise Untranslatable(f'loop at {fr.qualname}:{node.lineno} over a sequence of unknown length '
                                 f'needs an invariant (it updates {sorted(mutated | (names - tnames))})')
        for b in node.body:
            for n in ast.walk(b):
                if isinstance(n, (ast.Break, ast.Yield, ast.YieldFrom)):
                    raise Untranslatable(f'loop with break/yield at {fr.qualname}:{node.lineno} needs an invariant')
        which = self.ex.choose([z3.BoolVal(True), z3.BoolVal(True)], ['search:hit', 'search:miss'])
        if kind == 'symset':
            sbox: Box = space
            sterm = sbox.term
            ety = sbox.elem
        else:
            seq: SV = space
            n = z3.Length(seq.term)
            ety = seq.ty.elem
        fold = None
        if kind == 'symbolic':
            # "every element falls through" as the fused all-fold over the sequence: the same function
            # a spec written as all(...)/any(...) over that sequence denotes
            ph = z3.Const('comp!elem', ety.z3sort())
            cond_ph = self.fallthrough_condition(node, fr, SV(ph, ety, oid=('elem', 'all')))
            fold = self.fused_fold(False, ('comp', cond_ph, None, ph, ety, TBool(), seq.term))
        if which == 0:
            if kind == 'symset':
                x = self.fresh('member', ety)
                self.ex.assume(z3.IsMember(x.term, sterm))
            else:
                i = self.fresh('i', TInt())
                self.ex.assume(z3.And(i.term >= 0, i.term < n))
                self.ex.assume(z3.Not(fold))
                x = SV(seq.term[i.term], ety, oid=('elem', self.ex.fresh_name('x')))
            self.assign(node.target, x, fr)
            try:
                self.exec_block(node.body, fr)
            except ContinueSig:
                pass
            except ReturnSig as r:
                if not is_concrete(r.value):
                    raise Untranslatable('search loop returning a value that depends on the element')
                raise
            # falling through: this element is not a hit, so this path adds nothing
            raise PathCut()
        if kind == 'symset':
            m = z3.Const(self.ex.fresh_name('m'), ety.z3sort())
            cond = self.fallthrough_condition(node, fr, SV(m, ety, oid=('elem', 'all')))
            self.ex.assume(z3.ForAll([m], z3.Implies(z3.IsMember(m, sterm), cond), patterns=[z3.IsMember(m, sterm)]))
        else:
            j = z3.Int(self.ex.fresh_name('j'))
            xj = SV(seq.term[j], ety, oid=('elem', 'all'))
            cond = self.fallthrough_condition(node, fr, xj)
            self.ex.assume(z3.ForAll([j], z3.Implies(z3.And(j >= 0, j < n), cond)))
            self.ex.assume(fold)
        self.exec_block(node.orelse, fr)

    def fallthrough_condition(self, node, fr, x):
        """condition (over x and the current state) under which one run of the loop body falls through"""
        sub = self.sub_interp(list(self.ex.base_hyps) + list(self.ex.st.pc))
        sub.in_clause = self.in_clause
        sub.fuv = self.fuv
        sub.fuv_name = self.fuv_name
        sub.current_contract = self.current_contract
        sub.depth = self.depth
        sub._loop_ord_by_line = self._loop_ord_by_line
        env = dict(fr.env)
        base = len(self.ex.base_hyps) + len(self.ex.st.pc)

        def body(ex):
            nfr = Frame(dict(env), fr.globs, fr.qualname, fr.closure)
            nfr.assigned_names = getattr(fr, 'assigned_names', set())
            sub.assign(node.target, x, nfr)
            try:
                sub.exec_block(node.body, nfr)
            except ContinueSig:
                return 'fall'
            except ReturnSig:
                return 'return'
            return 'fall'
        results = sub.ex.explore(body)
        conds = []
        for kind, payload, st in results:
            if kind == 'ret' and payload == 'fall':
                conds.append(z3.And(*st.pc) if st.pc else z3.BoolVal(True))
        # safety obligations met while exploring the body belong to this function as well
        for ob in sub.obligations:
            self.obligations.append(ob)
        return z3.Or(*conds) if conds else z3.BoolVal(False)

    # ------------------------------------------------------------------ comprehensions
    def comprehension(self, node, fr, kind):
        if len(node.generators) != 1:
            return self.nested_comprehension(node, fr, kind)
        g = node.generators[0]
        if g.is_async:
            raise Untranslatable('async comprehension')
        it = self.eval(g.iter, fr)
        k, space = self.iteration_space(it, fr, node)
        if k == 'concrete':
            out = []
            for x in space:
                nfr = Frame(dict(fr.env), fr.globs, fr.qualname, fr.closure)
                nfr.assigned_names = getattr(fr, 'assigned_names', set())
                self.assign(g.target, x, nfr)
                ok = True
                for cond in g.ifs:
                    c = self.eval(cond, nfr)
                    if not self.truth(c, 'comp-if'):
                        ok = False
                        break
                if ok:
                    out.append(self.eval(node.elt, nfr))
            return Box('list', items=out) if kind == 'list' else tuple(out)
        if k != 'symbolic':
            raise Untranslatable(f'comprehension over {k}')
        return self.lift_comprehension(node, g, fr, space, kind)

    def nested_comprehension(self, node, fr, kind):
        """several `for` clauses: supported when every iteration space has a known length (unrolled)"""
        out = []

        def rec(i, env):
            if i == len(node.generators):
                nfr = Frame(env, fr.globs, fr.qualname, fr.closure)
                nfr.assigned_names = getattr(fr, 'assigned_names', set())
                out.append(self.eval(node.elt, nfr))
                return
            g = node.generators[i]
            nfr = Frame(dict(env), fr.globs, fr.qualname, fr.closure)
            nfr.assigned_names = getattr(fr, 'assigned_names', set())
            it = self.eval(g.iter, nfr)
            k, space = self.iteration_space(it, nfr, node)
            if k != 'concrete':
                raise Untranslatable('nested comprehension over a sequence of unknown length')
            for x in space:
                e2 = dict(env)
                f2 = Frame(e2, fr.globs, fr.qualname, fr.closure)
                f2.assigned_names = getattr(fr, 'assigned_names', set())
                self.assign(g.target, x, f2)
                ok = True
                for cond in g.ifs:
                    if not self.truth(self.eval(cond, f2), 'comp-if'):
                        ok = False
                        break
                if ok:
                    rec(i + 1, e2)
        rec(0, dict(fr.env))
        return Box('list', items=out) if kind == 'list' else tuple(out)


def _load(target):
    """copy of an assignment target as a load expression"""
    import copy
    t = copy.deepcopy(target)
    for n in ast.walk(t):
        if hasattr(n, 'ctx'):
            n.ctx = ast.Load()
    return t
