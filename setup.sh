#!/bin/bash
# Builds /verif/.venv offline (python 3.12 from /venv's interpreter):
#   z3-solver, cvc5 from /opt/veriftools/wheels; .pth -> /venv site-packages (attrs, lark, typeguard, hypothesis)
set -e
cd "$(dirname "$0")"
V=.venv
if [ -x $V/bin/python ] && $V/bin/python -c "import z3, attrs, lark" 2>/dev/null; then
  exit 0
fi
(
  flock 9
  if [ -x $V/bin/python ] && $V/bin/python -c "import z3, attrs, lark" 2>/dev/null; then exit 0; fi
  rm -rf $V
  /venv/bin/python -m venv $V
  PIP_NO_INDEX=1 $V/bin/pip install -q --no-index --find-links /opt/veriftools/wheels z3-solver cvc5 jsonschema >/dev/null 2>&1 || \
  PIP_NO_INDEX=1 $V/bin/pip install -q --no-index --find-links /opt/veriftools/wheels z3-solver
  echo "import site; site.addsitedir('/venv/lib/python3.12/site-packages')" > $V/lib/python3.12/site-packages/repo_deps.pth
  $V/bin/python -c "import z3, attrs, lark; print('venv ok', z3.get_version_string())"
) 9>.venv.lock
