#!/usr/bin/env python3
"""Regenerates MANIFEST.json from props/*.py metadata (MANIFEST_META below) - keeps it valid at all times."""
import json
import pathlib

ROOT = pathlib.Path(__file__).resolve().parent
BASELINE = "cd /repo && /venv/bin/python -m pytest -ra -q -p no:cacheprovider --timeout=900 --continue-on-collection-errors"

CLAIMED = {
    'C20': dict(category='proof', technique='contract-based deductive verification: pyvc VC generation over the real source of hpl/types.py + z3 (bit-vectors, sequences)',
                text='cast/can_be/can_be_*/union of the real DataType are verified against the bit-set meet/join spec for all type sets (unbounded union length by loop invariant); idempotence, commutativity, associativity, monotonicity, glb/lub are lemmas over that spec. The 128x128 exhaustive native run only validates the Flag encoding.',
                note='A-FLAG (enum.Flag is bitwise on .value; validated exhaustively each run), pyvc translation of the Python subset, z3 5.1.0', ref='DESIGN.md section 6, C20'),
}
CLAIMED['C15'] = dict(category='proof', technique='contract-based deductive verification: virtual contracts per class x query against recursive spec functions over the generated AST datatype; loop invariants; induction lemmas; z3 + cvc5',
    text='children/external_references/contains_reference/contains_self_reference/contains_definition of all 11 expression classes, iterate() (pre-order, loop invariant + stack lemma), predicate- and event-level queries, aliases() and simple_events() are proved equal to spec functions written from the statement (free references, occurrences, binders, source order). The own-field check (check_some_self_references) is covered by a bounded stand-in only.',
    note='fields hold values of their declared classes; generators evaluated eagerly (pure); pyvc translation; z3/cvc5', ref='DESIGN.md section 6, C15')
CLAIMED['C02'] = dict(category='proof', technique='contract-based deductive verification of the attrs-generated HplProperty.__init__ -> sanity_check chain against the acceptance rule sane(); search loops summarised; z3',
    text='constructing HplProperty(scope, pattern) raises HplSanityError iff not sane(scope, pattern) - clauses (i) and (ii) of the statement - for every scope kind, pattern kind and (possibly disjunctive) events, via contracts on _check_refs_defined/_check_duplicates and the C15 event contracts. Clause (iii) duplicate channel: HplEventDisjunction construction raises iff a channel repeats (loop invariant). Clause (iv) quantifier hygiene: HplQuantifier construction raises HplSanityError only if hygiene is broken and returns only hygienic quantifiers (validators walking iterate() under loop invariants). Bounded grids kept beside both.',
    note='attrs-generated __init__ source from linecache; C15 contracts; reading of clause (ii) over event positions', ref='DESIGN.md section 6, C02')
CLAIMED['C11'] = dict(category='other', technique='contract-based deductive verification (pyvc + z3/cvc5) of canonical_form against the decomposition spec, on inputs of fixed disjunction width with symbolic leaves; bounded native grid for metadata/idempotence',
    text='canonical_form(P) == canon(P): which positions are split, activator-major source order, identity for unsplit inputs, every other field unchanged - proved for symbolic simple events, aliases, predicates and time bounds on inputs whose disjunction widths are fixed per task (bounded in width). Metadata copy, idempotence and constructibility of outputs: bounded grid. Open finding F13.',
    note='bounded in disjunction width; metadata outside the value model; C02 constructor contracts', ref='DESIGN.md section 6, C11')
CLAIMED['C12'] = dict(category='other', technique='lemmas over a first-order trace semantics discharged by z3 (unbounded traces) + the C11 contract obligations that tie the code to the split table',
    text='For each pattern kind / split position of the decomposition the code is proved to implement (C11), distributing the position over two alternatives preserves satisfaction on every finite timed trace (unbounded length, dense time, arbitrary scope window, alias bindings); the forbidden splits are shown not meaning-preserving (controls).',
    note='A-SEM: the trace semantics is a formalisation written here from docs/lang.md; C11 link bounded in width', ref='DESIGN.md section 6, C12')
CLAIMED['C17'] = dict(category='other', technique='contract-based deductive verification (pyvc + z3) of the type-token constructors and index membership; ground evaluation of predefined tokens; bounded stand-in for the schema walk',
    text='Proved: token constructors reject ill-formed declarations (max<min, length<-1, wrong-kind enumerated values), ArrayType.contains_index/is_fixed_length, twos-complement bounds of the predefined integer tokens. Bounded (not proved): type_check_references and the navigation helpers against an independent resolver on a schema x property grid. Two genuine defects repaired by fix: commits (F1, F2).',
    note='schema walk not under contract; A-REAL for numeric bounds', ref='DESIGN.md section 6, C17')
_T = 'contract-based deductive verification (pyvc: symbolic execution of the attrs-generated constructors, validators, converters and cast() from source; z3/cvc5) + assumed contracts on 3 constructors + bounded native tier'
CLAIMED['C03'] = dict(category='other', technique=_T,
    text='The node-level invariant wt (non-empty type set within the kind, operands inside parameter types, declared result type, equal type sets on both sides of =/!=, bound variable used at the element type) is proved to hold for the results of 9 expression constructors - including the quantifier constructor, whose validators walk iterate() (two loops under invariants; mentions/binds/uses_ok characterised as folds over preorder by induction lemmas) - and of cast() on all 11 classes, given well-typed children. HplSet/HplFunctionCall constructors and the predicate-level same-reference check are under assumed contracts evaluated natively; parser and rewriting outputs are checked by a bounded stand-in. Open finding F16.',
    note='assumed constructor contracts; A-LARK-CALL; built-in operator/function tables read live', ref='DESIGN.md section 6, C03')
CLAIMED['C04'] = dict(category='other', technique=_T,
    text='Completeness side: the TypeError conditions proved for the constructors and cast() are exact (raised only for a disjoint operand/parameter pair), so children whose type sets contain their schema types are never rejected and narrowing (intersection) keeps the schema type inside. The schema-assignment argument and the parser link are bounded (type-directed generation, schema check).',
    note='the sigma-invariant is argued from exact intersection semantics, not a separate obligation', ref='DESIGN.md section 6, C04')
CLAIMED['C05'] = dict(category='other', technique=_T,
    text='Soundness side: for the verified constructors and cast() a disjoint operand type set always raises TypeError (raises-iff obligations from the real source). Function calls, set elements, quantifier element types and the same-reference check: assumed contracts checked natively + single-clash injection through the parser. Open finding F16.',
    note='assumed constructor contracts; parser link bounded', ref='DESIGN.md section 6, C05')
CLAIMED['C16'] = dict(category='other', technique='ground obligations over the source (write inventory, frozen classes) + ' + _T,
    text='Every run: all AST classes frozen, metadata init=False/eq=False, heap writes in the source are exactly W1/W2/W3 and the forced in-place narrowing is requested only by operand validators (fails closed). Proved: cast() never writes to its receiver (self or copy) for all 11 classes; the verified constructors narrow exactly what their contracts declare (callers get frame obligations). Bounded: deep snapshots (structure, types, metadata, hash) around API calls and sequences; but() identity/copy clauses. One defect repaired (F14).',
    note='frame obligations of the rewriting functions are not yet under contract; metadata contents outside the value model', ref='DESIGN.md section 6, C16')
for _pid, _txt in (('C08', 'simplify vs reference evaluation on corpus x valuation grid; type, validity, vacuous-predicate clause; open findings F8, F9'),
                   ('C09', 'split_and: conjunction equivalence on valuations, shapes of the parts, no variable escape, ValueError only for unsatisfiable inputs'),
                   ('C10', 'refactor_reference: conjunction equivalence, alias-freeness of f1, no variable escape, identity clause, call-order independence'),
                   ('C13', 'negate/join, this<->var replacement and event alias rewrite vs reference evaluation'),
                   ('C14', 'rewriting functions total with documented result kinds over every built-in function x argument shape; three crashes repaired by fix: commits')):
    CLAIMED[_pid] = dict(category='exploration', technique='bounded stand-in only at this commit: native contract/oracle evaluation of the real functions on a generated corpus (contracts for these functions not yet discharged deductively)',
        text='BOUNDED, nothing proved: ' + _txt, note='reference semantics bounded.evaluator (A-SEM); corpus and valuation grid sizes in the evidence', ref='DESIGN.md section 6')
for _pid, _txt in (('C01', 'parsed AST == expected AST built through the API for three parenthesisations and random layout; roles, disjunction order, ms conversion; open finding F7 (keyword-prefixed names)'),
                   ('C06', 'parse(str(ast)) == ast with equal hash, idempotent printing, injective printing; three printing defects repaired by fix: commits; open finding F6 (NAN)'),
                   ('C07', 'only documented exceptions from five entry points on token soups, unicode, mutated valid texts, nesting to 40; call-order independence on one parser object'),
                   ('C18', 'file == its sequence of annotated properties; invalid member rejects the file with the same error class; empty / duplicate / unknown annotation'),
                   ('C19', 'hpl.cli.main in process: exit status, strictly valid JSON (null for inf/nan), field-for-field mirror of the AST')):
    CLAIMED[_pid] = dict(category='exploration', technique='bounded stand-in: the deciding part lies in third-party code (Lark; attrs.asdict/json/argparse) that contracts on /repo cannot decide; native oracle comparison on generated inputs',
        text='BOUNDED, nothing proved at this commit: ' + _txt, note='A-LARK / A-3P; sizes in the evidence', ref='DESIGN.md sections 6 and 7')
_PC = 'contract-based deductive verification (pyvc + z3) of the PropertyTransformer callbacks under the child shapes the grammar rules give them; ground checks of the generated grammar module and operator tables; bounded stand-in for the Lark link'
CLAIMED['C01'].update(category='other', technique=_PC,
    text='Proved: the tree-building callbacks - _lr_binop for each of the 16 operator tokens (operator identity, left/right operand order, casts), negation/minus, literals, references, field and index chains, range-bound exclusivity, the role mapping of all five patterns with INF default, ms->s conversion, scope roles, disjunction membership and source order (widths 2-4). Ground: grammar.py means the same as the generator output; operator tables match the grammar tokens. Bounded (A-LARK): which tree the LALR parser assigns to a text (precedence, associativity, layout, reject). Open finding F7.')
CLAIMED['C07'].update(category='other', technique=_PC,
    text='Proved: on every path of the callbacks under contract only the documented exception classes escape (asserts, subscripts, sum-type attribute accesses, enum lookups discharged under the rule-derived child shapes). Bounded (A-LARK): exceptions of the parsing library, recursion depth, statelessness of a parser object (fuzzing, failing-then-valid sequences against a fresh parser).')
CLAIMED['C18'].update(category='other', technique=_PC,
    text='Proved: hpl_file returns exactly its children in order; the annotation callbacks build their (key, value) pairs; metadata() raises HplSyntaxError iff a key repeats and otherwise returns exactly the given mapping. Bounded (A-LARK): segmentation of a file into properties, attribution of annotations, error class of an invalid member.')
_SEM = ('pyvc contracts + z3/cvc5 over the real source against the truth-value semantics specs/sem.py (universally quantified '
        'valuation; boolean connectives and quantifiers defined, everything below abstract); induction lemmas on quantifier '
        'domains and work lists; loop invariant; plus the bounded stand-in against the reference evaluator')
CLAIMED['C09'].update(category='other', technique=_SEM,
    text='Proved (unbounded, every well-typed boolean expression): split_and, _split_and_expr (work-list loop invariant), '
         '_and_presplit_transform, _split_and_not, _split_and_quantifier, empty_test: the conjunction of the parts is equivalent '
         'to the input on every valuation; every part is boolean and of none of the listed shapes; ValueError only if the input '
         'is unsatisfiable. Assumed: semantic axioms A-SEM-1..3 (checked natively), the function-call constructor '
         'contract (the quantifier constructor contract is proved by the checks of C03 / C02). Not proved: absence of TypeError/HplSanityError from the quantifier constructor (C14, bounded), the '
         'predicate-unwrapping dispatch. Bounded stand-in kept.',
    note='A-SEM; obligations lost with respect to /verif/baseline/C09.json are reported as violations without a failing input')
CLAIMED['C10'].update(category='other', technique=_SEM,
    text='Proved (unbounded, every well-typed expression with hygienic quantifiers): _refactor_ref_expr, _split_ref_operator, '
         '_split_ref_negation, _split_ref_quantifier: (f1 and f2) == f on every valuation; f1 contains no reference to A; when f '
         'does not mention A the result is f itself paired with True. Assumed: semantic axioms A-SEM-1..3 (checked natively), '
         'the function-call constructor contract (the quantifier constructor contract is proved by the checks of C03 / C02). Not proved (bounded): no bound variable escapes, the predicate-level '
         'wrapper and public dispatch, absence of TypeError/HplSanityError from the quantifier constructor (C14).',
    note='A-SEM; obligations lost with respect to /verif/baseline/C10.json are reported as violations without a failing input')
CLAIMED['C13'].update(category='other', technique=_SEM,
    text='Proved (unbounded, the three predicate classes): negate() denotes logical negation and join() logical conjunction on '
         'every valuation; the vacuous truth is the identity and the contradiction the annihilator of join. Assumed: the '
         'HplPredicateExpression constructor contract (may raise TypeError), semantic axioms A-SEM. Bounded only: this<->variable '
         'replacement, the inverse law, event alias normalisation (reference evaluator).',
    note='A-SEM; baseline /verif/baseline/C13.json')
CLAIMED['C14'].update(category='other', technique='pyvc contracts + z3/cvc5: safety obligations (one per path end that raises) of the rewriting functions under contract; bounded stand-in (native runs on the corpus) for the rest',
    text='Proved for the split_and chain, the refactor_reference helper chain and negate/join: on every path only the declared '
         'exception classes escape (no AssertionError, AttributeError, IndexError, KeyError; not/and/or constructors cannot '
         'raise) and results have the documented kind. Declared may-raise, not excluded: TypeError / HplSanityError from the '
         'quantifier and predicate constructors. Bounded only: simplify, this/var replacements, canonical_form, public wrappers. '
         'Open findings F13, F17.',
    note='baseline /verif/baseline/C14.json')
CLAIMED['C19'].update(category='other', technique='ground evaluation + pyvc contract of the value serializer; bounded in-process runs of hpl.cli.main (third-party: attrs.asdict, json, argparse)',
    text='Proved/ground: _ast_object_serializer maps enum members to values, non-finite floats to None, leaves finite numbers and other values unchanged. Bounded (A-3P): exit status 0 iff the argument parses, one strictly valid JSON document mirroring the AST, no JSON on failure.')
NOT_YET = {}


def main():
    props = [json.loads(l) for l in (ROOT / 'properties.jsonl').read_text().splitlines() if l.strip()]
    meta_file = ROOT / 'manifest_meta.json'
    meta = json.loads(meta_file.read_text()) if meta_file.exists() else {}
    claimed = dict(CLAIMED)
    claimed.update(meta.get('claimed', {}))
    na = meta.get('not_applicable', {})
    checks = []
    not_app = []
    for p in props:
        pid = p['id']
        if pid in claimed and (ROOT / 'props' / f'{pid}.py').exists():
            c = claimed[pid]
            checks.append({
                'property_id': pid,
                'quick_cmd': f'./check {pid} --tier quick',
                'thorough_cmd': f'./check {pid} --tier thorough',
                'evidence_file': f'evidence/{pid}.json',
                'replay_cmd_template': f'./check {pid} --replay {{path}}',
                'engine': 'pyvc',
                'level_claimed': {'category': c['category'], 'text': c['text'], 'design_ref': c.get('ref', 'DESIGN.md section 6')},
                'level_note': c['note'],
                'technique': c['technique'],
            })
        else:
            not_app.append({'property_id': pid, 'reason': na.get(pid, 'check not built yet in this session (work in progress; see DESIGN.md section 6 for the plan)')})
    man = {
        'version': 1,
        'setup_cmd': './setup.sh',
        'hooks': {'guard': 'HPL_SPECS_VERIF', 'enable': 'no hooks are needed: contracts are sidecar files in /verif, /repo is never annotated',
                  'baseline_off_cmd': BASELINE, 'source_commits': [], 'add_only': True},
        'engines': [{'name': 'pyvc', 'path': 'pyvc/', 'serves_properties': [c['property_id'] for c in checks],
                     'kind_free_text': 'verification-condition generator: concolic symbolic execution of the real Python source of /repo (re-read on every run) against sidecar contracts, spec functions and loop invariants; obligations discharged by z3 5.1.0; counter-models replayed on the real code'}],
        'checks': checks,
        'not_applicable': not_app,
        'notes': 'See DESIGN.md. Exit codes: 0 held, 1 violation, 3 checker fault.',
    }
    (ROOT / 'MANIFEST.json').write_text(json.dumps(man, indent=1))
    print('checks:', [c['property_id'] for c in checks])


if __name__ == '__main__':
    main()
