"""Predicate- and event-level reference specs (C15, C02, C11): from the property statements."""
from hpl.ast.predicates import HplPredicateExpression
from hpl.ast.events import HplSimpleEvent, HplEventDisjunction
from pyvc.contracts import spec, the
from specs.tree import refs, mentions, mentions_this


@spec
def pred_refs(p: 'Pred') -> 'Set[Str]':
    if isinstance(p, HplPredicateExpression):
        return refs(p.expression)
    return set()


@spec
def pred_mentions(p: 'Pred', a: 'Str') -> 'Bool':
    if isinstance(p, HplPredicateExpression):
        return mentions(p.expression, a)
    return False


@spec
def pred_mentions_this(p: 'Pred') -> 'Bool':
    if isinstance(p, HplPredicateExpression):
        return mentions_this(p.expression)
    return False


@spec
def ev_refs(ev: 'Event') -> 'Set[Str]':
    """free @-names of an event: those of its predicate(s), minus the event's own alias"""
    if isinstance(ev, HplSimpleEvent):
        if ev.alias is None:
            return pred_refs(ev.predicate)
        return pred_refs(ev.predicate) - {the(ev.alias)}
    return ev_refs(ev.event1) | ev_refs(ev.event2)


@spec
def ev_aliases(ev: 'Event') -> 'Seq[Str]':
    """aliases of the alternatives, in source order"""
    if isinstance(ev, HplSimpleEvent):
        if ev.alias is None:
            return ()
        return (the(ev.alias),)
    return ev_aliases(ev.event1) + ev_aliases(ev.event2)


@spec
def alts(ev: 'Event') -> 'Seq[Event]':
    """the simple alternatives of an event, flattened, in source order"""
    if isinstance(ev, HplSimpleEvent):
        return (ev,)
    return alts(ev.event1) + alts(ev.event2)


@spec
def ev_mentions(ev: 'Event', a: 'Str') -> 'Bool':
    if isinstance(ev, HplSimpleEvent):
        return pred_mentions(ev.predicate, a)
    return ev_mentions(ev.event1, a) or ev_mentions(ev.event2, a)


@spec
def ev_mentions_this(ev: 'Event') -> 'Bool':
    """the current message is referenced: directly, or through the event's own alias"""
    if isinstance(ev, HplSimpleEvent):
        if ev.alias is None:
            return pred_mentions_this(ev.predicate)
        return pred_mentions_this(ev.predicate) or pred_mentions(ev.predicate, the(ev.alias))
    return ev_mentions_this(ev.event1) or ev_mentions_this(ev.event2)


@spec
def wf_pred(p: 'Pred') -> 'Bool':
    from_expr = True
    if isinstance(p, HplPredicateExpression):
        return wf_q_(p.expression)
    return from_expr


@spec
def wf_event(ev: 'Event') -> 'Bool':
    """input validity: quantifier invariants inside; an alias, when present, is a non-empty name"""
    if isinstance(ev, HplSimpleEvent):
        if ev.alias is None:
            return wf_pred(ev.predicate)
        return wf_pred(ev.predicate) and len(the(ev.alias)) > 0
    return wf_event(ev.event1) and wf_event(ev.event2)


from specs.tree import wf_q as wf_q_  # noqa: E402


# ---- (iii) no channel occurs twice inside one event disjunction

@spec
def channels_ok(names: 'Set[Str]', evs: 'Seq[Event]') -> 'Bool':
    """no channel of evs (read from the last to the first) is in `names` or repeated"""
    if len(evs) == 0:
        return True
    last = evs[-1]
    n = last.name if isinstance(last, HplSimpleEvent) else ''
    return n not in names and channels_ok(names | {n}, evs[:-1])


@spec
def distinct_channels(evs: 'Seq[Event]') -> 'Bool':
    return channels_ok(set(), evs)
