"""Spec functions for the type lattice (C20): type sets are sets of the seven base flags."""
from hpl.types import DataType
from pyvc.contracts import spec

NONE = DataType.NONE
BASE_FLAGS = (DataType.BOOL, DataType.NUMBER, DataType.STRING, DataType.ARRAY, DataType.RANGE,
              DataType.SET, DataType.MESSAGE)


@spec
def meet(a: 'DT', b: 'DT') -> 'DT':
    """the shared base types of two type sets (set intersection)"""
    return a & b


@spec
def join(a: 'DT', b: 'DT') -> 'DT':
    return a | b


@spec
def subset(a: 'DT', b: 'DT') -> 'Bool':
    return (a & b) == a


@spec
def fold_or(ts: 'Seq[DT]') -> 'DT':
    if len(ts) == 0:
        return NONE
    return ts[0] | fold_or(ts[1:])


@spec
def all_below(ts: 'Seq[DT]', u: 'DT') -> 'Bool':
    if len(ts) == 0:
        return True
    return subset(ts[0], u) and all_below(ts[1:], u)
