"""C02 - the acceptance rule, clause by clause, written from the statement."""
from hpl.ast.properties import PatternType, ScopeType
from pyvc.contracts import spec, the
from specs.events import ev_refs, ev_aliases, alts, wf_event


@spec
def refs_ok(ev: 'Event', avail: 'Seq[Str]') -> 'Bool':
    """(i) every @name used in the event is bound by an earlier event"""
    return ev_refs(ev) <= set(avail)


@spec
def dup(aliases: 'Seq[Str]', avail: 'Seq[Str]') -> 'Bool':
    """(ii) some alias is bound a second time"""
    return any(a in avail for a in aliases)


@spec(inline=True)
def step_ok(ev: 'Event', avail: 'Seq[Str]') -> 'Bool':
    return refs_ok(ev, avail) and not dup(ev_aliases(ev), avail)


@spec(inline=True)
def opt_aliases(ev: 'Opt[Event]') -> 'Seq[Str]':
    if ev is None:
        return ()
    return ev_aliases(the(ev))


@spec(inline=True)
def opt_step_ok(ev: 'Opt[Event]', avail: 'Seq[Str]') -> 'Bool':
    """an absent event imposes nothing"""
    if ev is None:
        return True
    return step_ok(the(ev), avail)


@spec(inline=True)
def sane(scope: 'Scope', pattern: 'Pattern') -> 'Bool':
    init = opt_aliases(scope.activator)
    # activator first: nothing is bound before it
    ok_a = scope.activator is None or refs_ok(the(scope.activator), ())
    k = pattern.pattern_type
    b = pattern.behaviour
    if k is PatternType.ABSENCE or k is PatternType.EXISTENCE:
        ok_p = step_ok(b, init)
    elif k is PatternType.REQUIREMENT:
        # "behaviour before trigger for requires"
        ok_p = step_ok(b, init) and opt_step_ok(pattern.trigger, ev_aliases(b) + init)
    else:
        # trigger before behaviour (response, prevention)
        ok_p = opt_step_ok(pattern.trigger, init) and step_ok(b, opt_aliases(pattern.trigger) + init)
    # "with the terminator seeing only the activator's aliases"
    ok_t = opt_step_ok(scope.terminator, init)
    return ok_a and ok_p and ok_t


@spec
def wf_scope(scope: 'Scope') -> 'Bool':
    """established by HplScope's own validators: events present exactly where the scope kind says"""
    k = scope.scope_type
    has_a = k is ScopeType.AFTER or k is ScopeType.AFTER_UNTIL
    has_t = k is ScopeType.UNTIL or k is ScopeType.AFTER_UNTIL
    ok = (scope.activator is not None) == has_a and (scope.terminator is not None) == has_t
    return ok and (scope.activator is None or wf_event(the(scope.activator))) \
        and (scope.terminator is None or wf_event(the(scope.terminator)))


@spec
def wf_pattern(pattern: 'Pattern') -> 'Bool':
    k = pattern.pattern_type
    has_t = k is PatternType.REQUIREMENT or k is PatternType.RESPONSE or k is PatternType.PREVENTION
    ok = (pattern.trigger is not None) == has_t
    return ok and wf_event(pattern.behaviour) and (pattern.trigger is None or wf_event(the(pattern.trigger)))
