"""C03 - well-typedness of an expression tree, node by node, written from the statement."""
from hpl.ast.expressions import (HplSet, HplRange, HplLiteral, HplThisMessage, HplVarReference, HplQuantifier,
                                 HplUnaryOperator, HplBinaryOperator, HplFunctionCall, HplFieldAccess, HplArrayAccess,
                                 BuiltinUnaryOperator, BuiltinBinaryOperator, BuiltinFunction)
from hpl.types import DataType
from pyvc.contracts import spec
from specs.tree import mentions, binds

NONE = DataType.NONE
BOOL = DataType.BOOL
NUMBER = DataType.NUMBER
STRING = DataType.STRING
ARRAY = DataType.ARRAY
RANGE = DataType.RANGE
SET = DataType.SET
MESSAGE = DataType.MESSAGE
PRIMITIVE = DataType.PRIMITIVE
ITEM = DataType.ITEM
COMPOUND = DataType.COMPOUND
ACCESS = DataType.ITEM | DataType.ARRAY

UNARY_DEFS = tuple(m.value for m in BuiltinUnaryOperator.__members__.values())
BINARY_DEFS = tuple(m.value for m in BuiltinBinaryOperator.__members__.values())
FUNCTION_DEFS = tuple(m.value for m in BuiltinFunction.__members__.values())


def with_dt(e, d):
    """the node e with its stored type set replaced by d (natively: a field-by-field copy)"""
    if e.data_type == d:
        return e
    import copy
    c = copy.copy(e)
    object.__setattr__(c, 'data_type', d)
    return c


@spec(inline=True)
def within(a: 'DT', b: 'DT') -> 'Bool':
    """type set a lies inside type set b"""
    return (a & b) == a


@spec(inline=True)
def literal_type(v: 'Val') -> 'DT':
    if isinstance(v, bool):
        return BOOL
    if isinstance(v, str):
        return STRING
    return NUMBER


@spec(inline=True)
def builtin_unary(op: 'OpDef1') -> 'Bool':
    return any(op == d for d in UNARY_DEFS)


@spec(inline=True)
def builtin_binary(op: 'OpDef2') -> 'Bool':
    return any(op == d for d in BINARY_DEFS)


@spec(inline=True)
def builtin_call(f: 'FunDef', d: 'DT') -> 'Bool':
    return any(f == fd and d == fd.result for fd in FUNCTION_DEFS)


@spec
def wt(e: 'Expr') -> 'Bool':
    """every node carries a non-empty type set within what its kind allows; operands inside the parameter
    types; results the declared result type; both sides of =/!= the same type set"""
    d = e.data_type
    if d == NONE:
        return False
    if isinstance(e, HplLiteral):
        return d == literal_type(e.value)
    if isinstance(e, HplThisMessage):
        return d == MESSAGE
    if isinstance(e, HplVarReference):
        return within(d, ITEM)
    if isinstance(e, HplFieldAccess):
        return within(d, ACCESS) and e.message.data_type == MESSAGE and wt(e.message)
    if isinstance(e, HplArrayAccess):
        return within(d, ACCESS) and e.array.data_type == ARRAY and e.index.data_type == NUMBER \
            and wt(e.array) and wt(e.index)
    if isinstance(e, HplSet):
        return d == SET and all(wt(v) and within(v.data_type, PRIMITIVE) for v in e.values)
    if isinstance(e, HplRange):
        return d == RANGE and e.min_value.data_type == NUMBER and e.max_value.data_type == NUMBER \
            and wt(e.min_value) and wt(e.max_value)
    if isinstance(e, HplUnaryOperator):
        return builtin_unary(e.operator) and d == e.operator.result \
            and within(e.operand.data_type, e.operator.parameter) and wt(e.operand)
    if isinstance(e, HplBinaryOperator):
        op = e.operator
        ok = builtin_binary(op) and d == op.result and within(e.operand1.data_type, op.parameter1) \
            and within(e.operand2.data_type, op.parameter2)
        same = (op.parameter1 & op.parameter2) == NONE or e.operand1.data_type == e.operand2.data_type
        return ok and same and wt(e.operand1) and wt(e.operand2)
    if isinstance(e, HplFunctionCall):
        # the result type is the declared one of a built-in function
        return builtin_call(e.function, d) and all(wt(a) for a in e.arguments)
    # quantifier
    # "the bound variable of a quantifier is used only at the element type of its domain"
    return d == BOOL and within(e.domain.data_type, COMPOUND) and e.condition.data_type == BOOL \
        and wt(e.domain) and wt(e.condition) and uses_ok(e.condition, e.variable, elem_type(e.domain))


# ---- function signatures (C05: "no overload accepts => TypeError")

@spec
def params_accept(ps: 'Seq[DT]', ts: 'Seq[DT]') -> 'Bool':
    """pointwise: every argument type set overlaps the corresponding parameter type (ts at least as long as ps)"""
    if len(ps) == 0:
        return True
    if len(ts) == 0:
        return False
    return (ts[0] & ps[0]) != NONE and params_accept(ps[1:], ts[1:])


@spec
def all_overlap(ts: 'Seq[DT]', v: 'DT') -> 'Bool':
    if len(ts) == 0:
        return True
    return (ts[0] & v) != NONE and all_overlap(ts[1:], v)


@spec
def sig_accepts(sig: 'FunSig', ts: 'Seq[DT]') -> 'Bool':
    n = len(sig.parameters)
    if n > len(ts):
        return False
    if sig.variadic is None:
        return n == len(ts) and params_accept(sig.parameters, ts)
    return params_accept(sig.parameters, ts) and all_overlap(ts[n:], the(sig.variadic))


@spec
def accepts_any(sigs: 'Seq[FunSig]', ts: 'Seq[DT]') -> 'Bool':
    if len(sigs) == 0:
        return False
    return sig_accepts(sigs[0], ts) or accepts_any(sigs[1:], ts)


@spec
def uses_ok(e: 'Expr', v: 'Str', t: 'DT') -> 'Bool':
    """every occurrence of @v below e has a type set overlapping t"""
    if isinstance(e, HplVarReference):
        return e.token[1:] != v or (e.data_type & t) != NONE
    return all(uses_ok(c, v, t) for c in slots(e))


@spec
def elem_type(d: 'Expr') -> 'DT':
    """element type of a quantifier domain: the member types of a set literal, numbers for a range, else primitive"""
    if isinstance(d, HplSet):
        return fold_or([x.data_type for x in d.values])
    if isinstance(d, HplRange):
        return NUMBER
    return PRIMITIVE


from pyvc.contracts import the  # noqa: E402
from specs.tree import slots  # noqa: E402
from specs.lattice import fold_or  # noqa: E402
