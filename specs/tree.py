"""Tree-shape and reference specs (C15, used everywhere): written from the property statements.

`slots(n)` - the ordered child slots of a node - is derived from the attrs *field declarations*
(every eq-field whose declared type is a node class of the same family, or a tuple of them), not
from any children() method: it is the independent walk over the fields the properties ask for."""
import attrs

from hpl.ast.expressions import (HplExpression, HplVarReference, HplQuantifier, HplThisMessage)
from pyvc.contracts import spec
from pyvc import classtable
from pyvc.classtable import TNode, TSeq, TOpt


def slots(n):
    """native: child objects in field-declaration order"""
    ct = classtable.get_table()
    ci = ct.classes[type(n)]
    out = []
    for f in ci.fields:
        v = getattr(n, f.name)
        if isinstance(f.ty, TNode) and f.ty.sort == ci.sort:
            out.append(v)
        elif isinstance(f.ty, TSeq) and isinstance(f.ty.elem, TNode) and f.ty.elem.sort == ci.sort:
            out.extend(v)
        elif isinstance(f.ty, TOpt) and isinstance(f.ty.elem, TNode) and f.ty.elem.sort == ci.sort:
            if v is not None:
                out.append(v)
    return tuple(out)


# ---- references

@spec
def refs(e: 'Expr') -> 'Set[Str]':
    """names of @-variables that occur free"""
    if isinstance(e, HplVarReference):
        return {e.token[1:]}
    if isinstance(e, HplQuantifier):
        return (refs(e.domain) | refs(e.condition)) - {e.variable}
    return refs_all(slots(e))


@spec
def refs_all(es: 'Seq[Expr]') -> 'Set[Str]':
    if len(es) == 0:
        return set()
    return refs(es[0]) | refs_all(es[1:])


@spec
def mentions(e: 'Expr', a: 'Str') -> 'Bool':
    """@a occurs anywhere"""
    if isinstance(e, HplVarReference):
        return e.token[1:] == a
    return any(mentions(c, a) for c in slots(e))


@spec
def mentions_this(e: 'Expr') -> 'Bool':
    """the current message is referenced"""
    if isinstance(e, HplThisMessage):
        return True
    return any(mentions_this(c) for c in slots(e))


@spec
def binds(e: 'Expr', a: 'Str') -> 'Bool':
    """some quantifier binds a"""
    if isinstance(e, HplQuantifier) and e.variable == a:
        return True
    return any(binds(c, a) for c in slots(e))


# ---- shape

@spec
def preorder(e: 'Expr') -> 'Seq[Expr]':
    """every node exactly once, parents before children, left to right"""
    return (e,) + preorder_all(slots(e))


@spec
def preorder_all(es: 'Seq[Expr]') -> 'Seq[Expr]':
    if len(es) == 0:
        return ()
    return preorder(es[0]) + preorder_all(es[1:])


# ---- class invariant of quantifiers (C02 (iv)); needed as precondition by external_references

@spec
def wf_q(e: 'Expr') -> 'Bool':
    """every quantifier below e uses its variable in its body, not in its domain, and is not re-bound"""
    if isinstance(e, HplQuantifier):
        ok = mentions(e.condition, e.variable) and not binds(e.condition, e.variable) \
            and not mentions(e.domain, e.variable)
        return ok and wf_q(e.domain) and wf_q(e.condition)
    return all(wf_q(c) for c in slots(e))


def rev(s):
    return tuple(reversed(s))


@spec
def preorder_stack(s: 'Seq[Expr]') -> 'Seq[Expr]':
    """pre-order listing of a work stack: the top of the stack (last element) is visited first"""
    if len(s) == 0:
        return ()
    return preorder(s[-1]) + preorder_stack(s[:-1])
