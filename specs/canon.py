"""C11 - the canonical decomposition, written from the statement (runs natively; executed symbolically
on inputs whose disjunction shapes are fixed)."""
from hpl.ast.events import HplSimpleEvent, HplEventDisjunction
from hpl.ast.properties import HplProperty, HplScope, HplPattern, PatternType
from pyvc.contracts import spec, the


def flat(ev):
    """the simple alternatives of an event, in source order"""
    if isinstance(ev, HplSimpleEvent):
        return (ev,)
    return flat(ev.event1) + flat(ev.event2)


def split_position(kind):
    """'the behaviour of absence, requirement and prevention; the trigger of response'; existence: none"""
    if kind is PatternType.ABSENCE or kind is PatternType.REQUIREMENT or kind is PatternType.PREVENTION:
        return 'behaviour'
    if kind is PatternType.RESPONSE:
        return 'trigger'
    return None


def canon(P):
    scope, pattern = P.scope, P.pattern
    acts = flat(scope.activator) if scope.activator is not None else (None,)
    pos = split_position(pattern.pattern_type)
    if pos == 'behaviour':
        evs = flat(pattern.behaviour)
    elif pos == 'trigger':
        evs = flat(pattern.trigger)
    else:
        evs = (None,)
    if len(acts) == 1 and len(evs) == 1:
        return [P]        # "returns the property itself"
    out = []
    for a in acts:        # "activator-major in source order"
        for e in evs:
            s2 = HplScope(scope.scope_type, activator=a, terminator=scope.terminator)
            if pos == 'behaviour':
                p2 = HplPattern(pattern.pattern_type, e, pattern.trigger, min_time=pattern.min_time,
                                max_time=pattern.max_time)
            elif pos == 'trigger':
                p2 = HplPattern(pattern.pattern_type, pattern.behaviour, e, min_time=pattern.min_time,
                                max_time=pattern.max_time)
            else:
                p2 = pattern
            out.append((s2, p2))
    return out
