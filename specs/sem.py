"""Truth-value semantics of the boolean skeleton of HPL expressions (C09, C10, C13).

`ev(e, rho)` is the truth value of a boolean expression e under a valuation rho.  It is *defined* for the
boolean skeleton - not / and / or / implies / iff, the two quantifiers, boolean literals - exactly as the
property statements use those words, and is *abstract* below it: the value of any other node (comparisons,
references, function calls, ...) is `atom(e, rho)`, the members of a quantifier domain are `dom(d, rho)`,
and `bind(rho, v, x)` is the valuation that additionally gives x to the variable v.  Env is an abstract sort.

Natively (replay, bounded tier, cross-check of the engine) Env is a valuation of the reference evaluator
(/verif/bounded/evaluator.py): atom / dom / bind are computed by it, so `ev` run natively is checked against
`evaluate` on the corpus (task `sem_agrees_with_evaluator`), and `forall_env` ranges over the sample valuations
installed by the caller.  Symbolically `forall_env` is a real universal quantifier.

What the encoding assumes about valuations is stated as axioms in /verif/contracts/sem_axioms.py (A-SEM):
  * frame - the value of an expression does not depend on a variable it does not mention;
  * `len(d) = 0` is true exactly when the domain d has no members.
Errors of the reference evaluator (division by zero, unbound names) have no counterpart: two-valued logic."""
from hpl.ast.expressions import (HplExpression, HplUnaryOperator, HplBinaryOperator, HplQuantifier, HplLiteral,
                                 HplFunctionCall, QuantifierType)
from pyvc.contracts import spec

_ENVS = [[]]          # native: the sample valuations forall_env ranges over


class SemError(Exception):
    pass


def set_envs(envs):
    _ENVS[0] = list(envs)


def forall_env(f):
    """for every valuation (natively: every installed sample valuation on which the body is defined)"""
    for rho in _ENVS[0]:
        try:
            if not f(rho):
                return False
        except SemError:
            continue
    return True


def _native_eval(e, rho):
    from bounded.evaluator import evaluate, EvalError
    try:
        return evaluate(e, rho)
    except (EvalError, TypeError, ValueError, KeyError, IndexError, OverflowError, ZeroDivisionError, RecursionError) as x:
        raise SemError(str(x))


@spec(opaque=True)
def atom(e: 'Expr', rho: 'Env') -> 'Bool':
    """truth value of a node outside the boolean skeleton"""
    v = _native_eval(e, rho)
    if not isinstance(v, bool):
        raise SemError('not a boolean')
    return v


@spec(opaque=True)
def dom(d: 'Expr', rho: 'Env') -> 'Seq[Val]':
    """the members of a quantifier domain"""
    from bounded.evaluator import members, EvalError
    try:
        return tuple(members(_native_eval(d, rho)))
    except EvalError as x:
        raise SemError(str(x))


@spec(opaque=True)
def bind(rho: 'Env', v: 'Str', x: 'Val') -> 'Env':
    vs = dict(rho['vars'])
    vs[v] = x
    return {'this': rho['this'], 'vars': vs}


@spec
def ev(e: 'Expr', rho: 'Env') -> 'Bool':
    if isinstance(e, HplUnaryOperator) and e.operator.token == 'not':
        return not ev(e.operand, rho)
    if isinstance(e, HplBinaryOperator) and e.operator.token == 'and':
        return ev(e.operand1, rho) and ev(e.operand2, rho)
    if isinstance(e, HplBinaryOperator) and e.operator.token == 'or':
        return ev(e.operand1, rho) or ev(e.operand2, rho)
    if isinstance(e, HplBinaryOperator) and e.operator.token == 'implies':
        return (not ev(e.operand1, rho)) or ev(e.operand2, rho)
    if isinstance(e, HplBinaryOperator) and e.operator.token == 'iff':
        return ev(e.operand1, rho) == ev(e.operand2, rho)
    if isinstance(e, HplQuantifier):
        if e.quantifier is QuantifierType.ALL:
            return all(ev(e.condition, bind(rho, e.variable, x)) for x in dom(e.domain, rho))
        return any(ev(e.condition, bind(rho, e.variable, x)) for x in dom(e.domain, rho))
    if isinstance(e, HplLiteral) and e.value is True:
        return True
    if isinstance(e, HplLiteral) and e.value is False:
        return False
    return atom(e, rho)


def equiv(a, b):
    """a and b have the same truth value under every valuation.  Symbolically a defined predicate:
    ForAll rho. ev(a, rho) == ev(b, rho)  (pyvc.models_specs)"""
    return forall_env(lambda rho: ev(a, rho) == ev(b, rho))


@spec
def conj(es: 'Seq[Expr]', rho: 'Env') -> 'Bool':
    """every expression of the list is true"""
    return all(ev(e, rho) for e in es)
