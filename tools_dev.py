"""developer helper: verify one function / lemma and print every obligation
usage: .venv/bin/python tools_dev.py <module[,module]> fn <qualname> [self_class] | lem <name>"""
import importlib
import os
import sys
import time

os.chdir('/')
mods, kind, name = sys.argv[1], sys.argv[2], sys.argv[3]
for m in mods.split(','):
    importlib.import_module(m)
from pyvc import verify, lemmas  # noqa
t0 = time.time()
tmo = int(os.environ.get('TMO', '10000'))
if kind == 'fn':
    res = verify.verify_function(name, sys.argv[4] if len(sys.argv) > 4 and sys.argv[4] != '-' else None, timeout_ms=tmo,
                                 shape=sys.argv[5] if len(sys.argv) > 5 else None)
else:
    res = lemmas.prove_lemma(name, timeout_ms=tmo)
print(res.summary()[:3000])
for o in res.obligations:
    if o.status != 'discharged' or os.environ.get('ALL'):
        print(f'  {o.status:10} {o.backend or "":14} {o.time:6.2f}s {o.kind:6} {o.name}  [{" > ".join(map(str, o.path_sig))[:300]}] {o.ladder}')
        if o.status == 'refuted' and getattr(o, 'replay', None):
            print('     replay:', str(o.replay)[:1500])
agg = {}
for o in res.obligations:
    k = (o.backend, o.kind)
    a = agg.setdefault(k, [0, 0.0]); a[0] += 1; a[1] += o.time
if os.environ.get('AGG'):
    for k, (n, tm) in sorted(agg.items(), key=lambda kv: -kv[1][1])[:14]:
        print(f'   {k[0]!s:40} {k[1]:7} n={n:4} time={tm:7.1f}s')
print(f"total {time.time() - t0:.1f}s  explore {res.time - res.solver_time:.1f}s solver {res.solver_time:.1f}s pre_sat={getattr(res, 'pre_sat', None)}")
