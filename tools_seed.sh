#!/bin/bash
# usage: tools_seed.sh <PROP> <i>   -- validates agent output /tmp/wt_<PROP>/out/{patch,demo,meta}<i> in a scratch
# worktree (applies, tests pass, demo fails with / passes without), then archives it under /verif/seeded/<PROP>_<i>/
P=$1; I=$2; SRC=/tmp/wt_$P/out
W=/tmp/seedcheck_$P_$I
rm -rf $W; git -C /repo worktree add -q --detach $W HEAD || exit 2
cd $W
R0=$(PYTHONPATH=$W/src /venv/bin/python $SRC/demo$I.py >/dev/null 2>&1; echo $?)
git apply $SRC/patch$I.diff || { echo "patch does not apply on current HEAD"; git -C /repo worktree remove --force $W; exit 2; }
R1=$(PYTHONPATH=$W/src /venv/bin/python $SRC/demo$I.py >/dev/null 2>&1; echo $?)
T=$(PYTHONPATH=$W/src /venv/bin/python -m pytest -q -p no:cacheprovider tests 2>&1 | tail -1)
cd /verif
git -C /repo worktree remove --force $W
echo "demo pristine=$R0 patched=$R1 tests: $T"
if [ "$R0" = "0" ] && [ "$R1" != "0" ] && echo "$T" | grep -q "49 passed"; then
  D=/verif/seeded/${P}_$I; mkdir -p $D
  cp $SRC/patch$I.diff $D/patch.diff; cp $SRC/demo$I.py $D/demo.py
  python3 - <<PY
import json
m=json.load(open('$SRC/meta$I.json'))
m['confirmed']={'demo_exit_pristine':$R0,'demo_exit_patched':$R1,'tests':'$T'.strip(),'ran':'git worktree of /repo HEAD; git apply patch.diff; pytest tests; python demo.py with PYTHONPATH=<worktree>/src'}
json.dump(m,open('$D/meta.json','w'),indent=1)
PY
  echo "archived $D"
else
  echo "NOT CONFIRMED"
fi
